------------------------------- MODULE IoBuf -------------------------------
(* Property C18: library I/O ports and I/O buffers of amaranth.lib.io (docs/stdlib/io.rst).        *)
(*                                                                                                 *)
(* A library I/O port is a direction together with, for every wire, a polarity-inversion flag and  *)
(* the physical wire it stands for:                                                                *)
(*     Port == [dir : {"i","o","io"}, inv : Seq(BOOLEAN), src : Seq(<<leaf, bit>>)]                *)
(* `src` is the ghost part of the model: wire k of the port is bit src[k][2] of the leaf port       *)
(* number src[k][1] (the leaves are the ports that were *constructed*: SimulationPort,             *)
(* SingleEndedPort, DifferentialPort; everything else is made of them with [a:b], [i], + and ~).   *)
(* The harness observes `src` only through behaviour: which leaf signal / which pad a buffer       *)
(* drives and reads.                                                                               *)
(*                                                                                                 *)
(* This module is pure (no variables): port algebra, the per-bit buffer equations, the FFBuffer     *)
(* register machine as a step function, the evaluation of port-building programs, and the          *)
(* theorems.  IoBufCases enumerates programs (builder), IoBufFF explores the register machine,     *)
(* IoBufTrace validates executions and netlists of the real code.                                  *)
EXTENDS Integers, Sequences, FiniteSets

CONSTANT Mutant     \* "" = the documented design; otherwise the name of one seeded design error

Dirs == {"i", "o", "io"}

(* ------------------------------ bit vectors ------------------------------ *)
Bits(w) == [1..w -> BOOLEAN]
Zeros(w) == [k \in 1..w |-> FALSE]
Ones(w) == [k \in 1..w |-> TRUE]
Not(v) == [k \in 1..Len(v) |-> ~v[k]]
Take(v, w) == [k \in 1..w |-> v[k]]
RECURSIVE BitsToNat(_)
BitsToNat(v) == IF Len(v) = 0 THEN 0 ELSE (IF v[1] THEN 1 ELSE 0) + 2 * BitsToNat(Tail(v))
NatToBits(n, w) == [k \in 1..w |-> (n \div (2 ^ (k - 1))) % 2 = 1]

(* ------------------------------ port algebra ------------------------------ *)
Width(p) == Len(p.inv)

(* a constructed port of width w: invert= is either one bool for the whole port or one per wire *)
Leaf(id, dir, inv) == [dir |-> dir, inv |-> inv, src |-> [k \in 1..Len(inv) |-> <<id, k - 1>>]]
LeafOfOp(id, op) ==
    Leaf(id, op.dir, IF op.form = "bool" THEN [k \in 1..op.w |-> op.b] ELSE op.inv)

(* port[lo:hi] for 0 <= lo <= hi <= len; port[i] = port[i:i+1] for 0 <= i < len *)
Slice(p, lo, hi) ==
    [dir |-> p.dir, inv |-> SubSeq(p.inv, lo + 1, hi), src |-> SubSeq(p.src, lo + 1, hi)]
Index(p, i) == Slice(p, i, i + 1)

(* Python keys: a negative bound or index x means x + len; an omitted lower bound is 0, an omitted    *)
(* upper bound is len.  port[lo:hi] with olo / ohi telling that the bound was omitted; port[i] for    *)
(* -len <= i < len.                                                                                    *)
Norm(x, w) == IF x < 0 THEN x + w ELSE x
KeyLo(p, lo, olo) == IF olo THEN 0 ELSE Norm(lo, Width(p))
KeyHi(p, hi, ohi) == IF ohi THEN Width(p) ELSE Norm(hi, Width(p))
SliceKey(p, lo, olo, hi, ohi) == Slice(p, KeyLo(p, lo, olo), KeyHi(p, hi, ohi))
IndexKey(p, i) ==
    IF Mutant = "neg_index_empty" /\ i = -1 THEN Slice(p, Width(p) - 1, Width(p) - 1)   \* [-1:0] taken literally
    ELSE Index(p, Norm(i, Width(p)))

(* ~port: "the same effect as adding inverters to the i and o members of a buffer for that port" *)
Invert(p) == IF Mutant = "invert_same" THEN p ELSE [p EXCEPT !.inv = Not(p.inv)]

(* Direction.__and__ : self & self = self, Bidir & other = other, Input & Output is an error *)
DirMeet(a, b) == IF a = b THEN a ELSE IF a = "io" THEN b ELSE IF b = "io" THEN a ELSE "none"
ConcatOK(p, q) == DirMeet(p.dir, q.dir) # "none"
(* p + q : wires of p followed by wires of q, preserving their polarity inversion *)
Concat(p, q) ==
    [dir |-> DirMeet(p.dir, q.dir),
     inv |-> IF Mutant = "concat_rev" THEN q.inv \o p.inv ELSE p.inv \o q.inv,
     src |-> p.src \o q.src]

(* Buffer(direction, port) raises ValueError "unless port.direction in (direction, Bidir)" *)
Accepts(bdir, pdir) == pdir = bdir \/ pdir = "io"

(* ------------------------------ Buffer: per-bit equations ------------------------------ *)
(* o, pin : Bits(w) ; oe : BOOLEAN ; inv : the port's mask.                                          *)
PortO(o, inv) == [k \in 1..Len(inv) |-> o[k] # inv[k]]                 \* port.o = o XOR mask
PortOE(oe, w) == [k \in 1..w |-> oe]                                   \* every enable bit = oe
BufI(wire, inv) ==                                                     \* i = wire XOR mask
    IF Mutant = "no_in_inv" THEN wire ELSE [k \in 1..Len(inv) |-> wire[k] # inv[k]]
(* what the wire carries towards the buffer's input: for a bidirectional buffer on a simulation   *)
(* port the driven value is looped back, bit by bit, while that bit is enabled                     *)
Wire(bdir, po, poe, pin) ==
    IF bdir = "io" THEN [k \in 1..Len(pin) |-> IF poe[k] THEN po[k] ELSE pin[k]] ELSE pin
CombI(bdir, inv, o, oe, pin) == BufI(Wire(bdir, PortO(o, inv), PortOE(oe, Len(inv)), pin), inv)

(* observation of a combinational Buffer: fields carry a validity flag (the member exists) *)
BufObs(bdir, inv, s) ==
    [ov |-> bdir # "i", po |-> PortO(s.o, inv), poe |-> PortOE(s.oe, Len(inv)),
     iv |-> bdir # "o", bi |-> CombI(bdir, inv, s.o, s.oe, s.pin)]

(* ------------------------------ FFBuffer: one register per direction ------------------------------ *)
(* registers: ireg (i_domain), oreg and oereg (o_domain).  The power-on contents are not part of    *)
(* the contract ("reset-less registers", 'x' in the documented waveform): iv / ov tell whether the  *)
(* value observable at i / at the port is determined by inputs seen so far.                         *)
FFInit(w) == [ireg |-> Zeros(w), oreg |-> Zeros(w), oereg |-> FALSE, iv |-> FALSE, ov |-> FALSE]
FFObs(bdir, inv, r) ==
    [ov |-> bdir # "i" /\ r.ov, po |-> PortO(r.oreg, inv), poe |-> PortOE(r.oereg, Len(inv)),
     iv |-> bdir # "o" /\ r.iv, bi |-> r.ireg]
(* one event: s.ei / s.eo say which of the two domains has an active edge (both = simultaneous);   *)
(* every register samples values from just before the event                                         *)
FFTick(bdir, inv, r, s) ==
    LET ie == s.ei /\ bdir # "o"
        oe == s.eo /\ bdir # "i"
        oee == IF Mutant = "oe_wrong_domain" THEN s.ei /\ bdir # "i" ELSE oe
    IN [ireg  |-> IF ie THEN CombI(bdir, inv, r.oreg, r.oereg, s.pin) ELSE r.ireg,
        iv    |-> IF ie THEN (bdir = "i" \/ r.ov) ELSE r.iv,
        oreg  |-> IF oe THEN s.o ELSE r.oreg,
        oereg |-> IF oee THEN s.oe ELSE r.oereg,
        ov    |-> r.ov \/ oe]

(* expected observations of a buffer over a stimulus sequence (observation t is taken after the    *)
(* inputs of step t are applied and before the edges of step t)                                     *)
CutStim(s, w) == [s EXCEPT !.o = Take(s.o, w), !.pin = Take(s.pin, w)]
RECURSIVE FFRun(_, _, _, _)
FFRun(bdir, inv, r, stims) ==
    IF stims = <<>> THEN <<>>
    ELSE LET s == CutStim(Head(stims), Len(inv))
         IN <<FFObs(bdir, inv, r)>> \o FFRun(bdir, inv, FFTick(bdir, inv, r, s), Tail(stims))
CombRun(bdir, inv, stims) == [t \in 1..Len(stims) |-> BufObs(bdir, inv, CutStim(stims[t], Len(inv)))]
Run(kind, bdir, inv, stims) ==
    IF kind = "comb" THEN CombRun(bdir, inv, stims) ELSE FFRun(bdir, inv, FFInit(Len(inv)), stims)
(* compact form for dumps: <<port.o, port.oe, i>> as naturals (bit k-1 = wire k), -1 = not determined *)
EncObs(ob) == <<IF ob.ov THEN BitsToNat(ob.po) ELSE -1, IF ob.ov THEN BitsToNat(ob.poe) ELSE -1,
                IF ob.iv THEN BitsToNat(ob.bi) ELSE -1>>

(* ------------------------------ port-building programs ------------------------------ *)
(* a program is a sequence of records evaluated on a stack:                                          *)
(*   [op |-> "leaf", dir, w, form |-> "seq", inv]  push a freshly constructed port, invert=inv       *)
(*   [op |-> "leaf", dir, w, form |-> "bool", b]   the same with invert=b (one bool for all wires)   *)
(*   [op |-> "slice", lo, olo, hi, ohi] [op |-> "index", i] [op |-> "invert"]   replace the top       *)
(*        (port[lo:hi], olo / ohi = that bound is omitted; negative lo, hi, i count from the end)     *)
(*   [op |-> "concat"]  replace the two topmost ports p (below) and q (top) by p + q, or fail       *)
(* entries carry the nesting depth d of the expression that produced them and u = it contains a       *)
(* slice / index / invert                                                                               *)
Max(a, b) == IF a >= b THEN a ELSE b
Start == [stack |-> <<>>, nleaf |-> 0, err |-> ""]
Top(st) == st.stack[Len(st.stack)]
SetTop(st, e) == [st EXCEPT !.stack = [@ EXCEPT ![Len(@)] = e]]
ApplyOp(st, op) ==
    CASE op.op = "leaf" ->
            [st EXCEPT !.stack = Append(@, [p |-> LeafOfOp(st.nleaf + 1, op), d |-> 0, u |-> FALSE]),
                       !.nleaf = @ + 1]
      [] op.op = "slice"  -> SetTop(st, [p |-> SliceKey(Top(st).p, op.lo, op.olo, op.hi, op.ohi), d |-> Top(st).d + 1, u |-> TRUE])
      [] op.op = "index"  -> SetTop(st, [p |-> IndexKey(Top(st).p, op.i), d |-> Top(st).d + 1, u |-> TRUE])
      [] op.op = "invert" -> SetTop(st, [p |-> Invert(Top(st).p), d |-> Top(st).d + 1, u |-> TRUE])
      [] op.op = "concat" ->
            LET n == Len(st.stack)
                a == st.stack[n - 1]
                b == st.stack[n]
            IN IF ConcatOK(a.p, b.p)
               THEN [st EXCEPT !.stack = Append(SubSeq(@, 1, n - 2),
                                                [p |-> Concat(a.p, b.p), d |-> Max(a.d, b.d) + 1, u |-> a.u \/ b.u])]
               ELSE [st EXCEPT !.err = "ValueError"]
RECURSIVE RunFrom(_, _)
RunFrom(st, prog) == IF prog = <<>> THEN st ELSE RunFrom(ApplyOp(st, Head(prog)), Tail(prog))
RunProg(prog) == RunFrom(Start, prog)

(* ------------------------------ designs on real pads: use sets ------------------------------ *)
(* A design places buffers on core I/O ports ("pads" 1..N of the given widths).  A buffer               *)
(*   [kind |-> "raw" | "comb" | "ff", bdir, segs |-> Seq([pad, lo, hi]), neg, site]                       *)
(* is an IOBufferInstance ("raw": no inversion) or a lib.io Buffer / FFBuffer on the library port         *)
(* pad[lo:hi] (+ pad'[lo':hi']), inverted once more when neg; library ports carry the mask PadMask.       *)
(* Every bit of a core I/O port may be used once: the design is accepted iff no pad bit occurs twice,    *)
(* be it in two buffers or twice in the port of one buffer; otherwise building the netlist is refused    *)
(* (DriverConflict).  `site` names the source line at which the buffer instance is created; it has no    *)
(* influence on the verdict (the mutant "same_site_ok" only notices conflicts between different sites).  *)
PadMask(w) == [k \in 1..w |-> k % 2 = 1]
SegPort(sg, padw, raw) ==
    Slice(Leaf(sg.pad, "io", IF raw THEN Zeros(padw[sg.pad]) ELSE PadMask(padw[sg.pad])), sg.lo, sg.hi)
RECURSIVE CatSegs(_, _, _)
CatSegs(segs, padw, raw) ==
    IF Len(segs) = 1 THEN SegPort(segs[1], padw, raw)
    ELSE Concat(CatSegs(SubSeq(segs, 1, Len(segs) - 1), padw, raw), SegPort(segs[Len(segs)], padw, raw))
BufPort(b, padw) ==
    LET p == CatSegs(b.segs, padw, b.kind = "raw") IN IF b.neg /\ b.kind # "raw" THEN Invert(p) ELSE p
(* all uses of pad bits in order: <<pad, bit, site>> *)
RECURSIVE AllUses(_, _)
AllUses(bufs, padw) ==
    IF bufs = <<>> THEN <<>>
    ELSE LET src == BufPort(Head(bufs), padw).src
         IN [k \in 1..Len(src) |-> <<src[k][1], src[k][2], Head(bufs).site>>] \o AllUses(Tail(bufs), padw)
Accepted(bufs, padw) ==
    LET u == AllUses(bufs, padw) IN
    \A j, k \in 1..Len(u) : (j # k /\ u[j][1] = u[k][1] /\ u[j][2] = u[k][2]) =>
                              (Mutant = "same_site_ok" /\ u[j][3] = u[k][3])
UsedBits(bufs, padw) == LET u == AllUses(bufs, padw) IN {<<u[k][1], u[k][2]>> : k \in 1..Len(u)}
RevSeq(q) == [k \in 1..Len(q) |-> q[Len(q) + 1 - k]]
UseLaw(bufs, padw) ==
    /\ Accepted(bufs, padw) <=> Len(AllUses(bufs, padw)) = Cardinality(UsedBits(bufs, padw))
    /\ Accepted(bufs, padw) = Accepted(RevSeq(bufs), padw)
    /\ Accepted(bufs, padw) => \A m \in 1..Len(bufs) : Accepted(SubSeq(bufs, 1, m), padw) /\ Accepted(<<bufs[m]>>, padw)

(* ------------------------------ theorems (checked by TLC on every enumerated port) ------------------------------ *)
WellFormed(p) == p.dir \in Dirs /\ Len(p.inv) = Len(p.src) /\ p.inv \in Bits(Width(p))
(* every physical wire occurs at most once in a port built from distinct leaves *)
SrcInjective(p) == \A j, k \in 1..Width(p) : j # k => p.src[j] # p.src[k]
(* ~ is an involution and acts as an inverter on both members *)
InvertLaw(p) ==
    /\ Invert(Invert(p)) = p
    /\ Width(Invert(p)) = Width(p) /\ Invert(p).dir = p.dir /\ Invert(p).src = p.src
    /\ \A o \in {Zeros(Width(p)), Ones(Width(p))} :
          /\ PortO(o, Invert(p).inv) = Not(PortO(o, p.inv))
          /\ BufI(o, Invert(p).inv) = Not(BufI(o, p.inv))
(* slicing is per wire; re-joining the two halves of a port gives the port back *)
SliceLaw(p) ==
    \A m \in 0..Width(p) :
        /\ Width(Slice(p, 0, m)) = m /\ Width(Slice(p, m, Width(p))) = Width(p) - m
        /\ Concat(Slice(p, 0, m), Slice(p, m, Width(p))) = p
        /\ m < Width(p) => /\ Index(p, m).inv = <<p.inv[m + 1]>>
                           /\ Index(p, m).src = <<p.src[m + 1]>>
(* keys counted from the end and omitted bounds select the same wires as their explicit forms *)
KeyLaw(p) ==
    LET w == Width(p) IN
    /\ \A i \in 1..w : /\ IndexKey(p, -i) = Index(p, w - i) /\ Width(IndexKey(p, -i)) = 1
                       /\ IndexKey(p, -i).inv = <<p.inv[w - i + 1]>>
                       /\ SliceKey(p, -i, FALSE, 0, TRUE) = Slice(p, w - i, w)
                       /\ SliceKey(p, 0, TRUE, -i, FALSE) = Slice(p, 0, w - i)
                       /\ SliceKey(p, -i, FALSE, 0, TRUE) = Concat(IndexKey(p, -i), Slice(p, w - i + 1, w))
    /\ SliceKey(p, 0, TRUE, 0, TRUE) = p
    /\ w > 0 => IndexKey(p, -1) = SliceKey(p, -1, FALSE, 0, TRUE)
(* widths add; the operands can be recovered from the sum wire for wire *)
ConcatLaw(p, q) ==
    ConcatOK(p, q) =>
        LET c == Concat(p, q) IN
        /\ Width(c) = Width(p) + Width(q)
        /\ Slice(c, 0, Width(p)).inv = p.inv /\ Slice(c, 0, Width(p)).src = p.src
        /\ Slice(c, Width(p), Width(c)).inv = q.inv /\ Slice(c, Width(p), Width(c)).src = q.src
        /\ Invert(c) = Concat(Invert(p), Invert(q))
        /\ c.dir = IF p.dir = q.dir THEN p.dir ELSE IF p.dir = "io" THEN q.dir ELSE p.dir
DirLaw ==
    /\ \A a, b \in Dirs : DirMeet(a, b) = DirMeet(b, a) /\ DirMeet(a, a) = a /\ DirMeet("io", a) = a
    /\ DirMeet("i", "o") = "none"
    /\ \A a, b \in Dirs : DirMeet(a, b) # "none" => \A bd \in Dirs : Accepts(bd, DirMeet(a, b)) => Accepts(bd, a) /\ Accepts(bd, b)
    /\ {<<bd, pd>> \in Dirs \X Dirs : Accepts(bd, pd)} =
          {<<"i", "i">>, <<"o", "o">>, <<"io", "io">>, <<"i", "io">>, <<"o", "io">>}
(* what a bidirectional buffer writes while enabled is what it reads back, whatever the mask;      *)
(* while disabled it reads the outside world through the same inverters that its output uses        *)
LoopbackLaw(p) ==
    \A o \in {Zeros(Width(p)), Ones(Width(p)), p.inv} :
        /\ CombI("io", p.inv, o, TRUE, Not(o)) = o
        /\ CombI("io", p.inv, Not(o), FALSE, PortO(o, p.inv)) = o
        /\ CombI("i", p.inv, Not(o), TRUE, PortO(o, p.inv)) = o
=============================================================================
