----------------------------- MODULE IoBufTrace -----------------------------
(* Validation of what the real amaranth.lib.io does (harness/props/c18.py) against IoBuf.            *)
(* A batch of items is read from the JSON file $TRACE_FILE; every item is judged in its own          *)
(* behaviour and ends by printing <<"ACC", tid, steps>> or <<"REJ", tid, step, clause>>.              *)
(*                                                                                                   *)
(* Every item names the port by the *program* that built it (IoBuf!RunProg gives its direction,      *)
(* mask and physical wires), the buffer (kind "comb" = Buffer, "ff" = FFBuffer; direction bdir) and   *)
(* `raised` = name of the exception raised by the buffer's constructor ("" = none).                  *)
(*                                                                                                   *)
(* item.k = "sim": an execution on SimulationPort leaves.                                             *)
(*    steps[t] = <<ei, eo, o, oe, li, lo, loe, bi>>: buffer inputs o / oe and the leaves' input        *)
(*    signals li[leaf] are applied; then the leaves' lo[leaf] = .o, loe[leaf] = .oe and the buffer's   *)
(*    bi = .i are read; then the i_domain (ei) / o_domain (eo) edges happen.  Naturals, bit b of a     *)
(*    natural = wire b; -1 = signal does not exist.                                                    *)
(* item.k = "net": the netlist of the buffer on SingleEndedPort (cls "se") / DifferentialPort         *)
(*    (cls "diff") leaves whose pads are named "p<leaf>" / "n<leaf>".                                  *)
(*    cells[c+1] = [k, op, ins, port, dir, o, oe] is cell c; a net is <<cell, bit>> (cell 0 bits 0,1    *)
(*    are the constants, further bits of cell 0 the top-level inputs described by top_i);              *)
(*    top_o = nets of the buffer's `i`.                                                                *)
(* item.k = "design": several buffers on shared pads, see "netlists" below; raised = "" or the name of  *)
(*    the exception raised while the netlist was built.                                                 *)
EXTENDS IoBuf, Json, IOUtils, TLC, TLCExt

Batch == JsonDeserialize(IOEnv.TRACE_FILE)
Traces == Batch.traces

VARIABLES tid, i, r, verdict
vars == <<tid, i, r, verdict>>

T == Traces[tid]
RP == RunProg(T.prog)
P == RP.stack[1].p
W == Width(P)
Bit(v, b) == (v \div (2 ^ b)) % 2 = 1

(* ------------------------------ executions ------------------------------ *)
StimOf(s) == [ei |-> s[1] = 1, eo |-> s[2] = 1, o |-> NatToBits(IF s[3] < 0 THEN 0 ELSE s[3], W), oe |-> s[4] = 1,
              pin |-> [k \in 1..W |-> IF s[5][P.src[k][1]] < 0 THEN FALSE ELSE Bit(s[5][P.src[k][1]], P.src[k][2])]]
SimClause(s) ==
    LET st == StimOf(s)
        ob == IF T.kind = "comb" THEN BufObs(T.bdir, P.inv, st) ELSE FFObs(T.bdir, P.inv, r)
    IN IF ob.ov /\ \E k \in 1..W : s[6][P.src[k][1]] < 0 \/ Bit(s[6][P.src[k][1]], P.src[k][2]) # ob.po[k]
       THEN "port_o_is_not_o_xor_mask"
       ELSE IF ob.ov /\ \E k \in 1..W : s[7][P.src[k][1]] < 0 \/ Bit(s[7][P.src[k][1]], P.src[k][2]) # ob.poe[k]
       THEN "port_oe_is_not_oe"
       ELSE IF ob.iv /\ (s[8] < 0 \/ NatToBits(s[8], W) # ob.bi)
       THEN "i_is_not_wire_xor_mask"
       ELSE ""

(* ------------------------------ netlists ------------------------------ *)
(* item.k = "net": one buffer (port = RunProg(prog)); item.k = "design": the buffers item.bufs on pads   *)
(* of widths item.padw (IoBuf, "use sets"); tops[b] = [o, oe |-> <<start, width>> of buffer b's top-level *)
(* inputs, i |-> nets of its `i`].                                                                        *)
(* nets are evaluated symbolically as affine forms over GF(2): a set of input variables and a constant;  *)
(* the variable "?" stands for anything that is not XOR / NOT / register / constant.                     *)
IsDesign == T.k = "design"
NB == IF IsDesign THEN Len(T.bufs) ELSE 1
BP(b) == IF IsDesign THEN BufPort(T.bufs[b], T.padw) ELSE P
BDir(b) == IF IsDesign THEN T.bufs[b].bdir ELSE T.bdir
BCls(b) == IF IsDesign THEN (IF T.bufs[b].kind = "raw" THEN "se" ELSE T.cls) ELSE T.cls
Tops == IF IsDesign THEN T.tops ELSE <<[o |-> T.top_i.o, oe |-> T.top_i.oe, i |-> T.top_o]>>
Cells == T.cells
CellOf(net) == Cells[net[1] + 1]
Sym(vs, c) == [v |-> vs, c |-> c]
XorS(a, b) == Sym((a.v \ b.v) \cup (b.v \ a.v), a.c # b.c)
InRange(b, rng) == b >= rng[1] /\ b < rng[1] + rng[2]
TopVar(bit) ==
    IF \E b \in 1..NB : InRange(bit, Tops[b].o)
    THEN LET b == CHOOSE b \in 1..NB : InRange(bit, Tops[b].o) IN <<"o", ToString(b), bit - Tops[b].o[1]>>
    ELSE IF \E b \in 1..NB : InRange(bit, Tops[b].oe)
    THEN LET b == CHOOSE b \in 1..NB : InRange(bit, Tops[b].oe) IN <<"oe", ToString(b), 0>>
    ELSE <<"?", "", 0>>
RECURSIVE Eval(_)
Eval(net) ==
    IF net[1] = 0 THEN
        IF net[2] < 2 THEN Sym({}, net[2] = 1) ELSE Sym({TopVar(net[2])}, FALSE)
    ELSE LET c == CellOf(net) IN
         CASE c.k = "op" /\ c.op = "^" -> XorS(Eval(c.ins[1][net[2] + 1]), Eval(c.ins[2][net[2] + 1]))
           [] c.k = "op" /\ c.op = "~" -> XorS(Eval(c.ins[1][net[2] + 1]), Sym({}, TRUE))
           [] c.k = "ff" -> Eval(c.ins[1][net[2] + 1])        \* a register stage is transparent here
           [] c.k = "iob" -> Sym({<<"pad", c.port[net[2] + 1][1], c.port[net[2] + 1][2]>>}, FALSE)
           [] OTHER -> Sym({<<"?", "", 0>>}, FALSE)

Pad(side, b, k) == <<side \o ToString(BP(b).src[k][1]), BP(b).src[k][2]>>
Uses(pad) == {u \in UNION {{<<c, j>> : j \in 1..Len(Cells[c].port)} : c \in 1..Len(Cells)} :
                 Cells[u[1]].k = "iob" /\ Cells[u[1]].port[u[2]] = pad}
TheUse(pad) == CHOOSE u \in Uses(pad) : TRUE
Wires == UNION {{<<b, k>> : k \in 1..Width(BP(b))} : b \in 1..NB}
Expected == {Pad("p", x[1], x[2]) : x \in Wires} \cup {Pad("n", x[1], x[2]) : x \in {y \in Wires : BCls(y[1]) = "diff"}}
Drives(u, b, k, c) ==          \* use u drives its pad with o_b[k] XOR c while oe_b
    /\ Cells[u[1]].dir \in {"output", "inout"}
    /\ Eval(Cells[u[1]].o[u[2]]) = Sym({<<"o", ToString(b), k - 1>>}, c)
    /\ Eval(Cells[u[1]].oe) = Sym({<<"oe", ToString(b), 0>>}, FALSE)
NetClause ==
    IF \E c \in 1..Len(Cells) : Cells[c].k = "iob" /\ \E j \in 1..Len(Cells[c].port) : Cells[c].port[j] \notin Expected
    THEN "buffer_cell_on_a_pad_outside_the_port"
    ELSE IF \E x \in Wires : Cardinality(Uses(Pad("p", x[1], x[2]))) # 1
    THEN "port_bit_not_used_by_exactly_one_buffer_cell"
    ELSE IF \E x \in Wires : BCls(x[1]) = "diff" /\ BDir(x[1]) # "i" /\ Cardinality(Uses(Pad("n", x[1], x[2]))) # 1
    THEN "complement_bit_not_used_by_exactly_one_buffer_cell"
    ELSE IF \E x \in Wires : Cardinality(Uses(Pad("n", x[1], x[2]))) > 1
    THEN "complement_bit_used_more_than_once"
    ELSE IF \E x \in Wires : BDir(x[1]) # "i" /\ ~Drives(TheUse(Pad("p", x[1], x[2])), x[1], x[2], BP(x[1]).inv[x[2]])
    THEN "pad_not_driven_with_o_xor_mask_under_oe"
    ELSE IF \E x \in Wires : BDir(x[1]) # "i" /\ BCls(x[1]) = "diff"
                               /\ ~Drives(TheUse(Pad("n", x[1], x[2])), x[1], x[2], ~BP(x[1]).inv[x[2]])
    THEN "complement_pad_not_driven_with_the_complement"
    ELSE IF \E x \in Wires : BDir(x[1]) = "i" /\ \E u \in Uses(Pad("p", x[1], x[2])) \cup Uses(Pad("n", x[1], x[2])) :
                                                      Cells[u[1]].dir # "input"
    THEN "input_buffer_drives_a_pad"
    ELSE IF \E x \in Wires : BDir(x[1]) # "o" /\ Eval(Tops[x[1]].i[x[2]]) #
                                   Sym({<<"pad", Pad("p", x[1], x[2])[1], Pad("p", x[1], x[2])[2]>>}, BP(x[1]).inv[x[2]])
    THEN "i_is_not_pad_xor_mask"
    ELSE ""

(* ------------------------------ verdict machine ------------------------------ *)
AcceptClause ==
    IF IsDesign THEN
        IF Accepted(T.bufs, T.padw) /\ T.raised # "" THEN "design_without_double_use_refused"
        ELSE IF ~Accepted(T.bufs, T.padw) /\ T.raised # "DriverConflict" THEN "double_use_of_a_port_bit_not_refused_with_DriverConflict"
        ELSE ""
    ELSE IF RP.err # "" \/ Len(RP.stack) # 1 THEN "bad_item"
    ELSE IF Accepts(T.bdir, P.dir) /\ T.raised # "" THEN "accepted_combination_raised"
    ELSE IF ~Accepts(T.bdir, P.dir) /\ T.raised # "ValueError" THEN "rejected_combination_did_not_raise_ValueError"
    ELSE ""

Init == tid \in 1..Len(Traces) /\ i = 0 /\ r = <<>> /\ verdict = ""

Rej(step, c) == verdict' = c /\ PrintT(<<"REJ", tid, step, c>>) /\ UNCHANGED <<tid, i, r>>
Acc(steps) == verdict' = "ACC" /\ PrintT(<<"ACC", tid, steps>>) /\ UNCHANGED <<tid, i, r>>

Start0 ==
    /\ verdict = "" /\ i = 0
    /\ LET c == AcceptClause IN
       IF c # "" THEN Rej(0, c)
       ELSE IF T.raised # "" THEN Acc(0)
       ELSE IF T.k \in {"net", "design"} THEN (LET d == NetClause IN IF d # "" THEN Rej(0, d) ELSE Acc(0))
       ELSE i' = 1 /\ r' = FFInit(W) /\ UNCHANGED <<tid, verdict>>

Step ==
    /\ verdict = "" /\ i >= 1 /\ i <= Len(T.steps)
    /\ LET s == T.steps[i]
           c == SimClause(s)
       IN IF c # "" THEN Rej(i, c)
          ELSE /\ r' = IF T.kind = "comb" THEN r ELSE FFTick(T.bdir, P.inv, r, StimOf(s))
               /\ i' = i + 1 /\ UNCHANGED <<tid, verdict>>

Finish == verdict = "" /\ i >= 1 /\ i = Len(T.steps) + 1 /\ Acc(Len(T.steps))

Next == Start0 \/ Step \/ Finish
Spec == Init /\ [][Next]_vars
=============================================================================
