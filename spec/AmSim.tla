-------------------------------- MODULE AmSim --------------------------------
(* The simulation kernel (docs/simulator.rst; property C08) as a state machine whose actions     *)
(* are the kernel's critical sections:                                                           *)
(*   TbStep      the testbench executes one operation (testbenches only run while the design      *)
(*               has converged): set / get / tick (with sampling) / delay / read the time         *)
(*   AdvanceTime the timeline moves to the earliest deadline (clock toggle or delay expiry)       *)
(*   RunProc(p)  ONE ready process runs: it reads current values and queues changes               *)
(*               - enabled for ANY ready process, so TLC explores every scheduling order           *)
(*   Commit      queued changes become current, waiters are woken (processes sensitive to a       *)
(*               changed signal; clocked logic and tick() waiters on the active edge, the latter  *)
(*               sampling values before any register updates); repeat until nothing is ready      *)
(* The design is a fixed small topology whose process *functions* range over all truth tables:    *)
(*   x = F1(a, b) (comb)   y = F2(x, b) (comb)   r <= F3(y, a) at posedge clk   clk: generator     *)
(* chosen in Init, so one TLC run covers every design of that shape.                              *)
EXTENDS Integers, Sequences, FiniteSets, TLC

CONSTANTS Scripts,       \* set of testbench scripts (sequences of operations)
          Fns, SyncFns,  \* sets of truth tables (0..15) the combinational / clocked process functions range over
          Period, Phase, \* clock generator: first toggle at Phase, then every Period \div 2 (femtoseconds)
          InitVals,      \* set of initial values of register r
          Mutant         \* "" | "read_pending": processes read queued instead of current values

Sigs == {"a", "b", "x", "y", "r", "q", "clk"}
Procs == {"P1", "P2", "P3", "P4", "CLK"}
Out == [P1 |-> "x", P2 |-> "y", P3 |-> "r", P4 |-> "q", CLK |-> "clk"]
(* two registers feeding each other (r <= F3(y, q), q <= F4(r, a)): both are ready at the same edge *)
Ins == [P1 |-> <<"a", "b">>, P2 |-> <<"x", "b">>, P3 |-> <<"y", "q">>, P4 |-> <<"r", "a">>, CLK |-> <<"clk", "clk">>]
Half == Period \div 2
Never == 1000000000

VARIABLES fn, script, curr, nxt, ready, todo, expect, phase, pc, obs, now, clkT, wait, deadline, sampled, woken
vars == <<fn, script, curr, nxt, ready, todo, expect, phase, pc, obs, now, clkT, wait, deadline, sampled, woken>>

TT(t, i, j) == (t \div (2 ^ (i + 2 * j))) % 2            \* truth table t applied to (i, j)
Fun(p, vals) == IF p = "CLK" THEN 1 - vals["clk"]
                ELSE TT(fn[p], vals[Ins[p][1]], vals[Ins[p][2]])
(* the design is initially consistent: combinational outputs hold the function of the initial inputs *)
InitCurr(f, r0) ==
    LET x0 == TT(f["P1"], 0, 0)
        y0 == TT(f["P2"], x0, 0) IN
    [a |-> 0, b |-> 0, x |-> x0, y |-> y0, r |-> r0, q |-> f["Q0"], clk |-> 0]

Init ==
    /\ \E f \in [{"P1", "P2"} -> Fns], g \in [{"P3", "P4"} -> SyncFns], r0 \in InitVals, q0 \in InitVals :
          fn = [P1 |-> f["P1"], P2 |-> f["P2"], P3 |-> g["P3"], P4 |-> g["P4"], R0 |-> r0, Q0 |-> q0]
    /\ script \in Scripts
    /\ curr = InitCurr(fn, fn["R0"])
    /\ nxt = curr
    /\ ready = {} /\ todo = {} /\ expect = curr
    /\ phase = "tb" /\ pc = 1 /\ obs = <<>> /\ now = 0 /\ clkT = Phase
    /\ wait = "none" /\ deadline = Never /\ sampled = curr /\ woken = FALSE

(* ------------------------------- testbench ------------------------------- *)
Op == script[pc]
TbStep ==
    /\ phase = "tb" /\ pc <= Len(script)
    /\ pc' = pc + 1
    /\ CASE Op[1] = "set" ->          \* the write returns only after all consequences have settled
              /\ nxt' = [curr EXCEPT ![Op[2]] = Op[3]]
              /\ expect' = nxt'
              /\ phase' = "commit" /\ wait' = "set"
              /\ UNCHANGED <<obs, deadline>>
         [] Op[1] = "get" ->
              /\ obs' = Append(obs, <<"get", Op[2], curr[Op[2]]>>)
              /\ UNCHANGED <<nxt, phase, wait, deadline, expect>>
         [] Op[1] = "time" ->
              /\ obs' = Append(obs, <<"time", now>>)
              /\ UNCHANGED <<nxt, phase, wait, deadline, expect>>
         [] Op[1] = "tick" ->         \* resumes after the registers have updated; sample = values before the edge
              /\ wait' = "tick" /\ phase' = "time"
              /\ UNCHANGED <<nxt, obs, deadline, expect>>
         [] Op[1] = "delay" ->
              /\ wait' = "delay" /\ deadline' = now + Op[2] /\ phase' = "time"
              /\ UNCHANGED <<nxt, obs, expect>>
    /\ UNCHANGED <<fn, script, curr, ready, todo, now, clkT, sampled, woken>>

TbDone ==
    /\ phase = "tb" /\ pc = Len(script) + 1
    /\ phase' = "done"
    /\ PrintT(<<"DONE", fn, script, obs>>)       \* one line per (design, script): the observations every schedule yields
    /\ UNCHANGED <<fn, script, curr, nxt, ready, todo, expect, pc, obs, now, clkT, wait, deadline, sampled, woken>>

(* -------------------------------- timeline -------------------------------- *)
Earliest == IF clkT <= deadline THEN clkT ELSE deadline
AdvanceTime ==
    /\ phase = "time"
    /\ now' = Earliest
    /\ LET clkFires == clkT = Earliest
           dlFires == deadline = Earliest IN
       /\ ready' = IF clkFires THEN {"CLK"} ELSE {}
       /\ clkT' = IF clkFires THEN clkT + Half ELSE clkT
       /\ woken' = (dlFires /\ wait = "delay")
       /\ deadline' = IF dlFires THEN Never ELSE deadline
       /\ todo' = ready' /\ expect' = [curr EXCEPT !["clk"] = IF clkFires THEN 1 - curr["clk"] ELSE curr["clk"]]
       /\ phase' = IF ready' = {} THEN "converged" ELSE "eval"
    /\ UNCHANGED <<fn, script, curr, nxt, pc, obs, wait, sampled>>

(* ------------------------------- delta cycle ------------------------------- *)
RunProc(p) ==
    /\ phase = "eval" /\ p \in todo
    /\ nxt' = [nxt EXCEPT ![Out[p]] = Fun(p, IF Mutant = "read_pending" THEN nxt ELSE curr)]
    /\ todo' = todo \ {p}
    /\ phase' = IF todo' = {} THEN "commit" ELSE "eval"
    /\ UNCHANGED <<fn, script, curr, ready, expect, pc, obs, now, clkT, wait, deadline, sampled, woken>>

Changed == {s \in Sigs : nxt[s] # curr[s]}
Sensitive(p) == IF p \in {"P3", "P4"} THEN ("clk" \in Changed /\ nxt["clk"] = 1)       \* clocked logic: active edge only
                ELSE IF p = "CLK" THEN FALSE
                ELSE \E i \in 1..2 : Ins[p][i] \in Changed
Commit ==
    /\ phase = "commit"
    /\ curr' = nxt
    /\ ready' = {p \in Procs : Sensitive(p)}
    /\ LET edge == "clk" \in Changed /\ nxt["clk"] = 1 IN
       /\ sampled' = IF edge /\ wait = "tick" THEN nxt ELSE sampled      \* before any register update
       /\ woken' = (woken \/ (edge /\ wait = "tick"))
    /\ todo' = ready'
    /\ expect' = [s \in Sigs |-> IF \E p \in ready' : Out[p] = s
                                 THEN Fun(CHOOSE p \in ready' : Out[p] = s, nxt) ELSE nxt[s]]
    /\ phase' = IF ready' = {} THEN "converged" ELSE "eval"
    /\ UNCHANGED <<fn, script, nxt, pc, obs, now, clkT, wait, deadline>>

Converged ==           \* nothing is ready: wake the testbench if its wait is over, otherwise let time pass
    /\ phase = "converged"
    /\ IF wait = "set" \/ woken
       THEN /\ phase' = "tb" /\ wait' = "none" /\ woken' = FALSE
            /\ obs' = IF wait = "tick" THEN Append(obs, <<"tick", now, sampled["y"], sampled["r"], sampled["q"]>>) ELSE obs
       ELSE /\ phase' = "time" /\ UNCHANGED <<wait, woken, obs>>
    /\ UNCHANGED <<fn, script, curr, nxt, ready, todo, expect, pc, now, clkT, deadline, sampled>>

Next == TbStep \/ TbDone \/ AdvanceTime \/ (\E p \in Procs : RunProc(p)) \/ Commit \/ Converged
Spec == Init /\ [][Next]_vars

(* -------------------------------- properties -------------------------------- *)
(* whatever order the ready processes ran in, the queued values at the end of the eval phase are the *)
(* ones a fixed canonical order produces - hence every later value, sample and observation too       *)
ScheduleIndependent == phase = "commit" => nxt = expect
(* a testbench only ever observes a settled design *)
SetReturnsSettled == phase = "tb" =>
    /\ curr["x"] = TT(fn["P1"], curr["a"], curr["b"])
    /\ curr["y"] = TT(fn["P2"], curr["x"], curr["b"])
NoTimeTravel == [][now' >= now]_vars
(* the k-th toggle of the clock happens at Phase + k * Half *)
ClockTimes == (clkT - Phase) % Half = 0
DelayExact == \A i \in 1..Len(obs) : obs[i][1] = "time" => obs[i][2] >= 0
Done == phase = "done"
=============================================================================
