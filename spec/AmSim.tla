-------------------------------- MODULE AmSim --------------------------------
(* The simulation kernel (docs/simulator.rst; property C08) as a state machine whose actions     *)
(* are the kernel's critical sections:                                                           *)
(*   TbStep      the first runnable testbench (in the order they were added) executes one         *)
(*               operation - testbenches only run while the design has converged:                 *)
(*               set / get / tick (with sampling) / delay / read the time                         *)
(*   AdvanceTime the timeline moves to the earliest deadline (clock toggle or delay expiry)       *)
(*   RunProc(p)  ONE ready process runs: it reads current values and queues changes               *)
(*               - enabled for ANY ready process, so TLC explores every scheduling order           *)
(*   Commit      queued changes become current, waiters are woken (processes sensitive to a       *)
(*               changed signal; clocked logic and tick() waiters on the active edge, the latter  *)
(*               sampling values before any register updates); repeat until nothing is ready      *)
(* The design is a fixed small topology whose process *functions* range over truth tables:         *)
(*   x = F1(a, b), y = F2(x, b) (comb);  r <= F3(y, q), q <= F4(r, a) at posedge clk (two          *)
(*   registers feeding each other, both ready at the same edge);  clk: generator                   *)
(* chosen in Init, so one TLC run covers every design of that shape.                              *)
EXTENDS Integers, Sequences, FiniteSets, TLC

CONSTANTS ScriptSets,    \* set of tuples of testbench scripts (one script per testbench, in the order added)
          Fns, SyncFns,  \* sets of truth tables (0..15) the combinational / clocked process functions range over
          Period, Phase, \* clock generator: first toggle at Phase, then every Period \div 2 (femtoseconds)
          InitVals,      \* set of initial values of the registers
          Mutant         \* "" | "read_pending": processes read queued instead of current values
                         \*    | "reverse_tb": testbenches run in reverse order of addition

Sigs == {"a", "b", "x", "y", "r", "q", "clk"}
Procs == {"P1", "P2", "P3", "P4", "CLK"}
Out == [P1 |-> "x", P2 |-> "y", P3 |-> "r", P4 |-> "q", CLK |-> "clk"]
Ins == [P1 |-> <<"a", "b">>, P2 |-> <<"x", "b">>, P3 |-> <<"y", "q">>, P4 |-> <<"r", "a">>, CLK |-> <<"clk", "clk">>]
Half == Period \div 2
Never == 1000000000

VARIABLES fn, scripts, curr, nxt, ready, todo, expect, phase, pc, obs, now, clkT, wait, deadline, sampled, woken, wsig,
          cur            \* the testbench that ran last at this instant (0: none yet)
vars == <<fn, scripts, curr, nxt, ready, todo, expect, phase, pc, obs, now, clkT, wait, deadline, sampled, woken, wsig, cur>>

TBs == 1..Len(scripts)
(* derived state observable by testbenches: "rq" is ONE two-bit register whose bit 0 is driven by the fragment   *)
(* of r and bit 1 by the fragment of q (same next-state functions); "mem" is a memory row with two write ports  *)
(* in two clock domains whose edges coincide, each writing one granule with the same data: both always hold    *)
(* r + 2 * q, whatever the order in which the two ready processes ran                                           *)
(* "xy" is ONE two-bit signed combinational signal whose bit 0 is driven by the fragment computing x and bit 1 by   *)
(* the fragment computing y (same functions): it always holds x + 2 * y (as a bit pattern)                          *)
Val(s) == IF s \in {"rq", "mem"} THEN curr["r"] + 2 * curr["q"]
          ELSE IF s = "xy" THEN curr["x"] + 2 * curr["y"] ELSE curr[s]
TT(t, i, j) == (t \div (2 ^ (i + 2 * j))) % 2            \* truth table t applied to (i, j)
Fun(p, vals) == IF p = "CLK" THEN 1 - vals["clk"]
                ELSE TT(fn[p], vals[Ins[p][1]], vals[Ins[p][2]])
(* the design is initially consistent: combinational outputs hold the function of the initial inputs *)
InitCurr(f) ==
    LET x0 == TT(f["P1"], 0, 0)
        y0 == TT(f["P2"], x0, 0) IN
    [a |-> 0, b |-> 0, x |-> x0, y |-> y0, r |-> f["R0"], q |-> f["Q0"], clk |-> 0]

Init ==
    /\ \E f \in [{"P1", "P2"} -> Fns], g \in [{"P3", "P4"} -> SyncFns], r0 \in InitVals, q0 \in InitVals :
          fn = [P1 |-> f["P1"], P2 |-> f["P2"], P3 |-> g["P3"], P4 |-> g["P4"], R0 |-> r0, Q0 |-> q0]
    /\ scripts \in ScriptSets
    /\ curr = InitCurr(fn)
    /\ nxt = curr
    /\ ready = {} /\ todo = {} /\ expect = curr
    /\ phase = "tb" /\ pc = [i \in TBs |-> 1] /\ obs = <<>> /\ now = 0 /\ clkT = Phase
    /\ wait = [i \in TBs |-> "none"] /\ deadline = [i \in TBs |-> Never]
    /\ sampled = curr /\ woken = [i \in TBs |-> FALSE]
    /\ wsig = [i \in TBs |-> <<"", 0>>]          \* signal (and polarity) a changed() / edge() wait is about
    /\ cur = 0

(* ------------------------------- testbenches ------------------------------- *)
Runnable(i) == wait[i] \in {"ticked", "fired"} \/ (wait[i] = "none" /\ pc[i] <= Len(scripts[i]))
AnyRunnable == \E i \in TBs : Runnable(i)
(* testbenches always run in the order in which they were added: the kernel passes over them in that order again    *)
(* and again; the one it has reached runs until it waits (a write returns to the SAME testbench once the design has *)
(* settled), then the pass goes on with the runnable ones added after it, and starts over when there are none       *)
MidRun == cur # 0 /\ wait[cur] = "none" /\ pc[cur] <= Len(scripts[cur])
Least(S) == CHOOSE i \in S : \A j \in S : i <= j
NextTb == IF Mutant = "reverse_tb"
          THEN CHOOSE i \in TBs : Runnable(i) /\ \A j \in TBs : Runnable(j) => j <= i
          ELSE IF MidRun THEN cur
          ELSE LET later == {i \in TBs : Runnable(i) /\ i > cur} IN
               IF later # {} THEN Least(later) ELSE Least({i \in TBs : Runnable(i)})

(* a resumed tick wait that is not over yet: more repeats to go, or the until-condition was zero before this edge *)
TickAgain(i) == \/ wsig[i][1] = "#rep" /\ wsig[i][2] > 1
                \/ wsig[i][2] = 2 /\ sampled[wsig[i][1]] = 0
TbStep ==
    /\ phase = "tb" /\ AnyRunnable
    /\ LET i == NextTb
           op == IF wait[i] = "ticked" THEN <<"resume">> ELSE IF wait[i] = "fired" THEN <<"resume2">> ELSE scripts[i][pc[i]] IN
       /\ pc' = IF wait[i] \in {"ticked", "fired"} THEN pc ELSE [pc EXCEPT ![i] = @ + 1]
       /\ wsig' = IF op[1] = "changed" THEN [wsig EXCEPT ![i] = <<op[2], 0>>]
                  ELSE IF op[1] = "edge" THEN [wsig EXCEPT ![i] = <<op[2], op[3]>>]
                  ELSE IF op[1] = "tick" THEN [wsig EXCEPT ![i] = <<"", 0>>]
                  ELSE IF op[1] = "repeat" THEN [wsig EXCEPT ![i] = <<"#rep", op[2]>>]
                  ELSE IF op[1] = "until" THEN [wsig EXCEPT ![i] = <<op[2], 2>>]
                  ELSE IF op[1] = "resume" /\ TickAgain(i) /\ wsig[i][1] = "#rep" THEN [wsig EXCEPT ![i] = <<"#rep", @[2] - 1>>]
                  ELSE wsig
       /\ CASE op[1] = "resume" ->       \* the tick() this testbench waited for has happened: it receives the sample
                 \* tick().repeat(n) / tick().until(cond) wait again without returning (samples of earlier edges are dropped)
                 /\ IF TickAgain(i)
                    THEN obs' = obs /\ wait' = [wait EXCEPT ![i] = "tick"]
                    ELSE /\ obs' = Append(obs, <<i, "tick", now, sampled["y"], sampled["r"], sampled["q"]>>)
                         /\ wait' = [wait EXCEPT ![i] = "none"]
                 /\ UNCHANGED <<nxt, phase, deadline, expect>>
            [] op[1] = "resume2" ->      \* the changed() / edge() wait is over: the captured value is the settled one
                 /\ obs' = Append(obs, <<i, "fired", now, wsig[i][1], curr[wsig[i][1]]>>)
                 /\ wait' = [wait EXCEPT ![i] = "none"]
                 /\ UNCHANGED <<nxt, phase, deadline, expect>>
            [] op[1] = "changed" ->      \* wait until the signal changes (only signals that cannot glitch are used)
                 /\ wait' = [wait EXCEPT ![i] = "chg"]
                 /\ UNCHANGED <<nxt, obs, deadline, expect, phase>>
            [] op[1] = "edge" ->         \* wait until the signal changes to the given polarity
                 /\ wait' = [wait EXCEPT ![i] = "edge"]
                 /\ UNCHANGED <<nxt, obs, deadline, expect, phase>>
            [] op[1] = "set" ->          \* the write returns only after all consequences have settled
                 /\ nxt' = [curr EXCEPT ![op[2]] = op[3]]
                 /\ expect' = nxt'
                 /\ phase' = "commit" /\ wait' = [wait EXCEPT ![i] = "set"]
                 /\ UNCHANGED <<obs, deadline>>
            [] op[1] = "get" ->
                 /\ obs' = Append(obs, <<i, "get", op[2], Val(op[2])>>)
                 /\ UNCHANGED <<nxt, phase, wait, deadline, expect>>
            [] op[1] = "time" ->
                 /\ obs' = Append(obs, <<i, "time", now>>)
                 /\ UNCHANGED <<nxt, phase, wait, deadline, expect>>
            [] op[1] \in {"repeat", "until"} ->   \* tick().repeat(n): the n-th edge; tick().until(s): the first edge at
                 /\ wait' = [wait EXCEPT ![i] = "tick"]   \* which s, sampled like everything else just before the edge, is non-zero
                 /\ UNCHANGED <<nxt, obs, deadline, expect, phase>>
            [] op[1] = "tick" ->         \* resumes after the registers have updated; sample = values before the edge
                 /\ wait' = [wait EXCEPT ![i] = "tick"]
                 /\ UNCHANGED <<nxt, obs, deadline, expect, phase>>
            [] op[1] = "delay" ->
                 /\ wait' = [wait EXCEPT ![i] = "delay"] /\ deadline' = [deadline EXCEPT ![i] = now + op[2]]
                 /\ UNCHANGED <<nxt, obs, expect, phase>>
    /\ cur' = NextTb
    /\ UNCHANGED <<fn, scripts, curr, ready, todo, now, clkT, sampled, woken>>

(* no testbench can run: either all scripts are finished, or time must pass *)
TbIdle ==
    /\ phase = "tb" /\ ~AnyRunnable
    /\ IF \A i \in TBs : pc[i] = Len(scripts[i]) + 1 /\ wait[i] = "none"
       THEN phase' = "done" /\ PrintT(<<"DONE", fn, scripts, obs>>)   \* the observations every schedule yields
       ELSE phase' = "time"
    /\ UNCHANGED <<fn, scripts, curr, nxt, ready, todo, expect, pc, obs, now, clkT, wait, deadline, sampled, woken, wsig, cur>>

(* -------------------------------- timeline -------------------------------- *)
MinDeadline == LET S == {deadline[i] : i \in TBs} IN CHOOSE d \in S : \A e \in S : d <= e
Earliest == IF clkT <= MinDeadline THEN clkT ELSE MinDeadline
AdvanceTime ==
    /\ phase = "time"
    /\ now' = Earliest
    /\ LET clkFires == clkT = Earliest IN
       /\ ready' = IF clkFires THEN {"CLK"} ELSE {}
       /\ clkT' = IF clkFires THEN clkT + Half ELSE clkT
       /\ woken' = [i \in TBs |-> wait[i] = "delay" /\ deadline[i] = Earliest]
       /\ deadline' = [i \in TBs |-> IF deadline[i] = Earliest THEN Never ELSE deadline[i]]
       /\ todo' = ready' /\ expect' = [curr EXCEPT !["clk"] = IF clkFires THEN 1 - curr["clk"] ELSE curr["clk"]]
       /\ phase' = IF ready' = {} THEN "converged" ELSE "eval"
    /\ cur' = 0                                    \* a new instant: the passes over the testbenches start afresh
    /\ UNCHANGED <<fn, scripts, curr, nxt, pc, obs, wait, sampled, wsig>>

(* ------------------------------- delta cycle ------------------------------- *)
RunProc(p) ==
    /\ phase = "eval" /\ p \in todo
    /\ nxt' = [nxt EXCEPT ![Out[p]] = Fun(p, IF Mutant = "read_pending" THEN nxt ELSE curr)]
    /\ todo' = todo \ {p}
    /\ phase' = IF todo' = {} THEN "commit" ELSE "eval"
    /\ UNCHANGED <<fn, scripts, curr, ready, expect, pc, obs, now, clkT, wait, deadline, sampled, woken, wsig, cur>>

Changed == {s \in Sigs : nxt[s] # curr[s]}
Sensitive(p) == IF p \in {"P3", "P4"} THEN ("clk" \in Changed /\ nxt["clk"] = 1)  \* clocked logic: active edge only
                ELSE IF p = "CLK" THEN FALSE
                ELSE \E i \in 1..2 : Ins[p][i] \in Changed
Commit ==
    /\ phase = "commit"
    /\ curr' = nxt
    /\ ready' = {p \in Procs : Sensitive(p)}
    /\ LET edge == "clk" \in Changed /\ nxt["clk"] = 1 IN
       /\ sampled' = IF edge THEN nxt ELSE sampled               \* before any register update
       /\ woken' = [i \in TBs |-> \/ woken[i]
                                  \/ (edge /\ wait[i] = "tick")
                                  \/ (wait[i] = "chg" /\ wsig[i][1] \in Changed)
                                  \/ (wait[i] = "edge" /\ wsig[i][1] \in Changed /\ nxt[wsig[i][1]] = wsig[i][2])]
    /\ todo' = ready'
    /\ expect' = [s \in Sigs |-> IF \E p \in ready' : Out[p] = s
                                 THEN Fun(CHOOSE p \in ready' : Out[p] = s, nxt) ELSE nxt[s]]
    /\ phase' = IF ready' = {} THEN "converged" ELSE "eval"
    /\ UNCHANGED <<fn, scripts, nxt, pc, obs, now, clkT, wait, deadline, wsig, cur>>

Converged ==           \* nothing is ready: wake the testbenches whose wait is over
    /\ phase = "converged"
    /\ phase' = "tb"
    /\ wait' = [i \in TBs |-> IF wait[i] = "set" THEN "none"
                              ELSE IF woken[i] /\ wait[i] = "tick" THEN "ticked"
                              ELSE IF woken[i] /\ wait[i] \in {"chg", "edge"} THEN "fired"
                              ELSE IF woken[i] THEN "none" ELSE wait[i]]
    /\ woken' = [i \in TBs |-> FALSE]
    /\ UNCHANGED <<fn, scripts, curr, nxt, ready, todo, expect, pc, obs, now, clkT, deadline, sampled, wsig, cur>>

Next == TbStep \/ TbIdle \/ AdvanceTime \/ (\E p \in Procs : RunProc(p)) \/ Commit \/ Converged
Spec == Init /\ [][Next]_vars

(* -------------------------------- properties -------------------------------- *)
(* whatever order the ready processes ran in, the queued values at the end of the eval phase are the *)
(* ones a fixed canonical order produces - hence every later value, sample and observation too       *)
ScheduleIndependent == phase = "commit" => nxt = expect
(* a testbench only ever observes a settled design *)
SetReturnsSettled == phase = "tb" =>
    /\ curr["x"] = TT(fn["P1"], curr["a"], curr["b"])
    /\ curr["y"] = TT(fn["P2"], curr["x"], curr["b"])
NoTimeTravel == [][now' >= now]_vars
(* the k-th toggle of the clock happens at Phase + k * Half *)
ClockTimes == (clkT - Phase) % Half = 0
(* observations of one instant by different testbenches appear in the order the testbenches were added *)
TbOrder == \A k \in 1..Len(obs), l \in 1..Len(obs) :
    (k < l /\ obs[k][2] = "tick" /\ obs[l][2] = "tick" /\ obs[k][3] = obs[l][3]) => obs[k][1] < obs[l][1]
Done == phase = "done"
(* a wait for a change that never comes lets time run forever: the model is explored up to a time bound; *)
(* scripts that do not finish within it are simply not replayed                                          *)
TimeBound == now <= 70
=============================================================================
