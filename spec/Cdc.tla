------------------------------- MODULE Cdc -------------------------------
(* Contracts of the clock-domain-crossing primitives of amaranth.lib.cdc (property C17;        *)
(* docs/stdlib/cdc.rst), as state machines over *events*.                                      *)
(*                                                                                             *)
(* An event is one simultaneous set of changes: an input-domain clock edge (ie), an            *)
(* output-domain clock edge (oe), a new value v of the primitive's input (v = old value: no    *)
(* change), for FFSynchronizer a new value r of the output domain's reset.  Whatever is        *)
(* "sampled at an edge" is the value *before* the event (DESIGN.md Appendix A): an input that  *)
(* changes in the same event as a clock edge is seen with its old value, and an output-clock   *)
(* edge counts as "with the input released" only if the input was released before the event.   *)
(* Outputs are observed after the event has settled.                                           *)
(*                                                                                             *)
(* Part 1 are the contracts as pure operators (all parameters explicit), shared with CdcTrace, *)
(* which judges executions recorded from the real classes.  Part 2 is a state machine that     *)
(* runs an implementation-structured model (flop chains; toggle + chain + edge detector)       *)
(* against the contracts for every interleaving of events; TLC checks it exhaustively.         *)
(* Only Part 1 yields verdicts about amaranth.                                                 *)
EXTENDS Naturals, Integers, Sequences, TLC

CONSTANTS Prims,        \* subset of {"ff", "async", "pulse"}: the primitives explored in this run
          StagesSet,    \* numbers of synchronisation stages (>= 2)
          Widths,       \* ff: widths of the synchronised signal
          Inits,        \* ff: initial/reset values (those that fit the width)
          ResetLessSet, \* ff: subset of BOOLEAN; TRUE = unaffected by the output domain's reset (the default)
          Edges,        \* async: subset of {"pos", "neg"} (async_edge)
          Spacings,     \* pulse: subset of {"strict", "weak", "none"} (see PulseAssumed)
          MaxDepth,     \* > 0: full histories and counters, behaviours cut at this depth; 0: complete graphs
          MaxDepth2,    \* the depth for ff configurations wider than one bit
          Mutant        \* "" or a seeded design error of the implementation-structured model

VARIABLES cf,         \* the configuration of this behaviour (chosen in Init, never changes)
          inp,        \* current value of the primitive's input
          rst,        \* ff: current value of the output domain's reset
          c,          \* contract state (Part 1 records)
          m,          \* implementation-structured state
          bad         \* clause of the contract broken by the last event ("" = none)
vars == <<cf, inp, rst, c, m, bad>>

B2N(b) == IF b THEN 1 ELSE 0
Min2(a, b) == IF a < b THEN a ELSE b
Xor(a, b) == (a + b) % 2
AllOf(n, v) == [k \in 1..n |-> v]
Shift(ch, v) == <<v>> \o SubSeq(ch, 1, Len(ch) - 1)
Last(s) == s[Len(s)]

(* ======================= Part 1: the contracts (pure operators) ========================= *)

(* ---- FFSynchronizer: "a change at the input becomes visible at the output exactly at the   *)
(* stages-th subsequent output-domain edge; the output shows the initial value until then".   *)
(* h = the input values sampled at the output-domain edges so far (oldest first).  The output *)
(* after the n-th edge is the value sampled at edge n-stages+1, the init value while          *)
(* n < stages.  A synchroniser that is not reset-less forgets everything at an edge at which  *)
(* the domain's reset is asserted ("init: initial and reset value of the flip-flops").        *)
(* full = FALSE keeps only the last `stages` samples (same output, finite state).             *)
FFStep(h, stages, oe, resetting, ipre, full) ==
    IF ~oe THEN h
    ELSE IF resetting THEN <<>>
    ELSE LET h1 == Append(h, ipre) IN IF ~full /\ Len(h1) > stages THEN Tail(h1) ELSE h1
FFOut(h, stages, init) == IF Len(h) < stages THEN init ELSE h[Len(h) - stages + 1]
FFClause(o, h, stages, init) ==
    IF o = FFOut(h, stages, init) THEN ""
    ELSE IF Len(h) < stages THEN "ff_output_not_init_before_stages_edges"
    ELSE "ff_output_not_the_input_of_stages_edges_ago"

(* ---- AsyncFFSynchronizer / ResetSynchronizer: "assert the output as soon as the input      *)
(* asserts, independent of the clock, and release it after exactly `stages` output-clock      *)
(* edges with the input released".  cnt = number of output-clock edges seen with the input    *)
(* already released since it was last asserted (saturating at stages).                        *)
IsAsserted(edge, v) == IF edge = "neg" THEN v = 0 ELSE v = 1
AsyncStep(cnt, stages, oe, apre, apost) ==
    LET c1 == IF ~oe THEN cnt ELSE IF apre THEN 0 ELSE Min2(cnt + 1, stages)
    IN IF apost THEN 0 ELSE c1
AsyncOut(cnt, stages, apost) == B2N(apost \/ cnt < stages)
AsyncClause(o, cnt, stages, apost) ==
    IF o = AsyncOut(cnt, stages, apost) THEN ""
    ELSE IF apost THEN "async_output_not_asserted_with_input"
    ELSE IF o = 0 THEN "async_output_released_before_stages_edges"
    ELSE "async_output_not_released_after_stages_edges"

(* ---- PulseSynchronizer: "exactly one single-cycle output pulse per input pulse, for every   *)
(* interleaving of the two clocks, provided an output-clock edge falls between consecutive    *)
(* input pulses".                                                                             *)
(* An input pulse is an input-clock edge at which the input is high (before the event); an    *)
(* output pulse is one output-clock cycle during which the output is high (the output may     *)
(* change at output-clock edges only).  p.pend = ages (output-clock edges seen since) of the  *)
(* input pulses not yet answered, oldest first; every output-high cycle answers the oldest.   *)
(* Latency: the flag has to pass `stages` synchronisation stages ("stages between input and   *)
(* output"), so an answer comes no sooner than the stages-th later output edge, and no later  *)
(* than one more edge (edge detector) -- the bound that makes "exactly one" checkable at      *)
(* every instant rather than only at the end of time.                                         *)
(* Assumption (generator side): between two consecutive input pulses, at events e1 < e2,      *)
(* there is an output-clock edge at an event e with e1 < e < e2 ("strict"; an output edge     *)
(* coincident with e1 sampled the state before e1 and does not count).  "weak" also accepts   *)
(* e = e2 (the edge coincident with e2 samples the state before e2); "none" drops the         *)
(* assumption (pulses may then be lost: used to show the assumption is necessary).            *)
PulseLatMin(stages) == stages
PulseLatMax(stages) == stages + 1
PulseInit == [pend |-> <<>>, o |-> 0, ok |-> TRUE, since |-> 0, ins |-> 0, outs |-> 0]
PulseAssumed(p, ie, oe, ipre, spacing) ==
    ~(ie /\ ipre = 1) \/ spacing = "none" \/ p.ok \/ (spacing = "weak" /\ oe)
PulseAged(p, oe) == IF oe THEN [k \in 1..Len(p.pend) |-> p.pend[k] + 1] ELSE p.pend
PulseRest(p, oe, opost) ==
    LET aged == PulseAged(p, oe) IN IF oe /\ opost = 1 /\ Len(aged) > 0 THEN Tail(aged) ELSE aged
PulseClause(p, stages, ie, oe, ipre, opost) ==
    LET aged == PulseAged(p, oe)
        hit  == oe /\ opost = 1
        rest == PulseRest(p, oe, opost)
    IN IF ~oe /\ opost # p.o THEN "pulse_output_changed_without_output_clock_edge"
       ELSE IF hit /\ Len(aged) = 0 THEN
            (IF p.o = 1 THEN "pulse_output_longer_than_one_cycle_or_duplicated"
             ELSE "pulse_output_without_input_pulse")
       ELSE IF hit /\ aged[1] < PulseLatMin(stages) THEN "pulse_output_before_stages_output_edges"
       ELSE IF oe /\ Len(rest) > 0 /\ rest[1] >= PulseLatMax(stages) THEN "pulse_input_lost_or_late"
       ELSE ""
PulseNext(p, stages, ie, oe, ipre, opost, count) ==
    LET pulse == ie /\ ipre = 1
        hit   == oe /\ opost = 1
        rest  == PulseRest(p, oe, opost)
    IN [pend  |-> IF pulse THEN Append(rest, 0) ELSE rest,
        o     |-> opost,
        ok    |-> IF pulse THEN FALSE ELSE IF oe THEN TRUE ELSE p.ok,
        since |-> IF pulse THEN 0 ELSE IF oe THEN Min2(p.since + 1, PulseLatMax(stages)) ELSE p.since,
        ins   |-> IF count /\ pulse THEN p.ins + 1 ELSE p.ins,
        outs  |-> IF count /\ hit THEN p.outs + 1 ELSE p.outs]

(* ============ Part 2: implementation-structured models against the contracts ============ *)
Cfg(p, s, w, i, rl, e, sp) ==
    [prim |-> p, stages |-> s, width |-> w, init |-> i, reset_less |-> rl, edge |-> e, spacing |-> sp]
Configs ==
    UNION {
      (IF "ff" \in Prims
       THEN UNION {{Cfg("ff", s, w, i, rl, "pos", "strict") : i \in Inits \cap 0..(2 ^ w - 1), rl \in ResetLessSet}
                   : w \in Widths} ELSE {})
      \cup (IF "async" \in Prims THEN {Cfg("async", s, 1, 0, TRUE, e, "strict") : e \in Edges} ELSE {})
      \cup (IF "pulse" \in Prims THEN {Cfg("pulse", s, 1, 0, TRUE, "pos", sp) : sp \in Spacings} ELSE {})
      : s \in StagesSet}

Full  == MaxDepth > 0
Vals  == IF cf.prim = "ff" THEN 0..(2 ^ cf.width - 1) ELSE {0, 1}
L     == IF Mutant = "short_chain" THEN cf.stages - 1 ELSE cf.stages       \* flops actually built
FFChain0 == IF Mutant = "bad_init_last" THEN [AllOf(L, cf.init) EXCEPT ![L] = (cf.init + 1) % (2 ^ cf.width)]
            ELSE AllOf(L, cf.init)

Out == IF cf.prim = "pulse" THEN (IF Mutant = "no_xor" THEN Last(m.chain) ELSE Xor(Last(m.chain), m.r))
       ELSE Last(m.chain)

Init ==
    /\ cf \in Configs
    /\ inp \in Vals /\ rst = 0 /\ bad = ""
    /\ c = IF cf.prim = "ff" THEN [hist |-> <<>>]
           ELSE IF cf.prim = "async" THEN [cnt |-> 0]          \* power-on: as if just asserted
           ELSE PulseInit
    /\ m = IF cf.prim = "ff" THEN [chain |-> FFChain0]
           ELSE IF cf.prim = "async" THEN [chain |-> AllOf(L, 1)]
           ELSE [tog |-> 0, chain |-> AllOf(L, 0), r |-> 0]

(* chain of flops in the output domain; every flop samples its predecessor before the event *)
FFEv(oe, v, r) ==
    LET resetting == ~cf.reset_less /\ rst = 1
        h1  == FFStep(c.hist, cf.stages, oe, resetting, inp, Full)
        ch1 == IF ~oe THEN m.chain ELSE IF resetting THEN FFChain0 ELSE Shift(m.chain, inp)
    IN /\ c' = [hist |-> h1]
       /\ m' = [chain |-> ch1]
       /\ bad' = FFClause(Last(ch1), h1, cf.stages, cf.init)

(* chain of flops (init 1, shifting in 0) with an asynchronous set controlled by the input *)
AsyncEv(oe, v) ==
    LET apre   == IsAsserted(cf.edge, inp)
        apost  == IsAsserted(cf.edge, v)
        iapre  == IF Mutant = "edge_inverted" THEN ~apre ELSE apre
        iapost == IF Mutant = "edge_inverted" THEN ~apost ELSE apost
        cnt1   == AsyncStep(c.cnt, cf.stages, oe, apre, apost)
        ch0    == IF ~oe THEN m.chain ELSE IF iapre THEN AllOf(L, 1) ELSE Shift(m.chain, 0)
        ch1    == IF iapost /\ Mutant # "sync_assert" THEN AllOf(L, 1) ELSE ch0
    IN /\ c' = [cnt |-> cnt1]
       /\ m' = [chain |-> ch1]
       /\ bad' = AsyncClause(Last(ch1), cnt1, cf.stages, apost)

(* toggle flop in the input domain, FFSynchronizer chain + one more flop in the output       *)
(* domain, output = chain end xor that flop                                                  *)
PulseEv(ie, oe, v) ==
    LET tog1 == IF ie THEN Xor(m.tog, inp) ELSE m.tog
        ch1  == IF oe THEN Shift(m.chain, m.tog) ELSE m.chain
        r1   == IF oe THEN Last(m.chain) ELSE m.r
        o1   == IF Mutant = "no_xor" THEN Last(ch1) ELSE Xor(Last(ch1), r1)
    IN /\ PulseAssumed(c, ie, oe, inp, cf.spacing)
       /\ m' = [tog |-> tog1, chain |-> ch1, r |-> r1]
       /\ bad' = PulseClause(c, cf.stages, ie, oe, inp, o1)
       /\ c' = PulseNext(c, cf.stages, ie, oe, inp, o1, Full)

Ev(ie, oe, v, r) ==
    /\ v \in Vals
    /\ inp' = v /\ rst' = r /\ UNCHANGED cf
    /\ IF cf.prim = "ff" THEN FFEv(oe, v, r) ELSE IF cf.prim = "async" THEN AsyncEv(oe, v) ELSE PulseEv(ie, oe, v)

(* the named events; v is the input value after the event (v = inp: the input does not change) *)
IEdge(v)     == cf.prim = "pulse" /\ Ev(TRUE, FALSE, v, rst)
OEdge(v)     == cf.prim \in {"ff", "async", "pulse"} /\ Ev(FALSE, TRUE, v, rst)
BothEdges(v) == cf.prim = "pulse" /\ Ev(TRUE, TRUE, v, rst)
SetInput(v)  == cf.prim # "async" /\ v # inp /\ Ev(FALSE, FALSE, v, rst)
AsyncAssert  == cf.prim = "async" /\ ~IsAsserted(cf.edge, inp) /\ Ev(FALSE, FALSE, 1 - inp, rst)
AsyncRelease == cf.prim = "async" /\ IsAsserted(cf.edge, inp) /\ Ev(FALSE, FALSE, 1 - inp, rst)
SetReset(r)  == cf.prim = "ff" /\ r # rst /\ Ev(FALSE, FALSE, inp, r)
(* anything that is not an event of the primitive: a clock edge or reset of an unrelated domain  *)
(* of the same design (e.g. "sync" next to the synchroniser's own domains), a change of the      *)
(* operands of the input expression that leaves its value unchanged (the contracts speak about   *)
(* the *value* of the input, whatever expression it is: a signal, ~x, a slice,                   *)
(* ResetSignal("sync"), ResetSignal("sync") | req).  It must be invisible.                       *)
Unrelated    == cf.prim \in {"ff", "async", "pulse"} /\ Ev(FALSE, FALSE, inp, rst)

AllVals == 0..(2 ^ (CHOOSE w \in Widths \cup {1} : \A x \in Widths : x <= w) - 1)   \* constant: lets TLC name the actions
Next == \/ \E v \in AllVals : IEdge(v) \/ OEdge(v) \/ BothEdges(v) \/ SetInput(v)
        \/ AsyncAssert \/ AsyncRelease
        \/ \E r \in {0, 1} : SetReset(r)
        \/ Unrelated
Spec == Init /\ [][Next]_vars

Constr == Full => TLCGet("level") <= (IF cf.prim = "ff" /\ cf.width > 1 THEN MaxDepth2 ELSE MaxDepth)

(* ------------------------------------ properties ---------------------------------------- *)
FFLatency     == cf.prim = "ff" => bad = ""
AsyncContract == cf.prim = "async" => bad = ""
PulseContract == cf.prim = "pulse" => bad = ""

(* the statement of the property, literally, over the full history (MaxDepth > 0) *)
FFStatement == (cf.prim = "ff" /\ Full) =>
    LET n == Len(c.hist) IN Out = IF n < cf.stages THEN cf.init ELSE c.hist[n - cf.stages + 1]
(* the finite window is the suffix of the history: at most `stages` samples are ever needed *)
FFWindow == (cf.prim = "ff" /\ ~Full) => Len(c.hist) <= cf.stages

AsyncImmediate == [][(cf.prim = "async" /\ IsAsserted(cf.edge, inp')) => Out' = 1]_vars
AsyncNoSpontaneous == [][(cf.prim = "async" /\ Out = 0 /\ ~IsAsserted(cf.edge, inp')) => Out' = 0]_vars
AsyncCounts == cf.prim = "async" => (c.cnt \in 0..cf.stages /\ (IsAsserted(cf.edge, inp) => c.cnt = 0))

UnrelatedInvisible == [][Unrelated => (Out' = Out /\ c' = c /\ m' = m)]_vars

(* pulse conservation over counters *)
PulseConservation == (cf.prim = "pulse" /\ Full) =>
    /\ c.outs <= c.ins
    /\ c.ins <= c.outs + cf.stages + 1
    /\ c.ins - c.outs = Len(c.pend)
PulseInflight == cf.prim = "pulse" => Len(c.pend) <= cf.stages + 1
PulseQuiescent == cf.prim = "pulse" =>
    (c.since >= PulseLatMax(cf.stages) => (c.pend = <<>> /\ (Full => c.ins = c.outs)))
(* the output only moves at output-clock edges, and the model's output is what the monitor saw *)
PulseOutputSeen == cf.prim = "pulse" => (bad = "" => c.o = Out)
=============================================================================
