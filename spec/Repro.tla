-------------------------------- MODULE Repro --------------------------------
(* Property C09 as a history monitor.  A *producer* (amaranth: rtlil.convert, the simulator, Platform.build, *)
(* BuildPlan.archive / extract) is asked again and again to produce artefacts; every answer is logged as    *)
(*     Observe(key, config, digest)                                                                         *)
(* key    = WHAT was produced: <<design, kind>>, kind in                                                    *)
(*          "rtlil", "sim_trace", "init_state", "post_reset_state", "plan_files", "plan_digest",             *)
(*          "archive_bytes", "extract_listing"                                                               *)
(* config = HOW: proc (number of the interpreter run), seed (its PYTHONHASHSEED), phase ("first", "rerun",  *)
(*          "same_object_again", "rebuilt", "after_reset", "shifted_clock", ...)                             *)
(* digest = the artefact, interned to a small integer in order of first appearance.                         *)
(*                                                                                                          *)
(* Reproducibility:   SameKeySameDigest    equal keys have equal digests, whatever the configs              *)
(*                    ResetRestoresInit    the state right after Simulator.reset() is the initial state     *)
(*                    ExtractMatchesPlan   BuildPlan.extract() writes exactly the planned files             *)
(* The monitor (Check / Update) decides these incrementally and names the broken clause; MonitorExact shows *)
(* (for every producer, faulty or not) that the monitor raises an alarm exactly when a property is broken.  *)
(* ReproTrace runs the same monitor over histories recorded from the real code.                             *)
(* This module also contains a small producer model: `truth` fixes one digest per key; a correct producer   *)
(* answers truth[key]; the mutants answer something that depends on the config.                             *)
EXTENDS Naturals, Sequences, FiniteSets, TLC

CONSTANTS Designs, Kinds, Procs, SeedOf, Phases, Digests, MaxObs,
          Mutant      \* "" | "any" | "hash_seed_dependent" | "rerun_dependent" | "reset_leaves_state" | "extract_skips_file"

VARIABLES truth, hist, first, alarm
vars == <<truth, hist, first, alarm>>

(* ------------------------------- the monitor (shared with ReproTrace) ----------------------------------- *)
KeyOf(e) == <<e.design, e.kind>>
Partner(k) == CASE k = "post_reset_state" -> "init_state"
                [] k = "init_state"       -> "post_reset_state"
                [] k = "extract_listing"  -> "plan_files"
                [] k = "plan_files"       -> "extract_listing"
                [] OTHER                  -> ""
LinkClause(k) == IF k \in {"post_reset_state", "init_state"} THEN "reset_does_not_restore_initial_state"
                 ELSE "extract_differs_from_planned_files"
How(f, e) == IF f.proc = e.proc THEN "_in_same_interpreter"              \* (the phases tell first / rerun / after reset)
             ELSE IF f.seed = e.seed THEN "_across_interpreters"         \* same PYTHONHASHSEED, another process
             ELSE "_across_hash_seeds"
(* fst: function from the keys seen so far to their first observation *)
Check(fst, e) ==
    LET pk == <<e.design, Partner(e.kind)>>
    IN IF KeyOf(e) \in DOMAIN fst /\ fst[KeyOf(e)].digest # e.digest
       THEN e.kind \o "_differs" \o How(fst[KeyOf(e)], e)
       ELSE IF Partner(e.kind) # "" /\ pk \in DOMAIN fst /\ fst[pk].digest # e.digest
       THEN LinkClause(e.kind)
       ELSE ""
Update(fst, e) == IF KeyOf(e) \in DOMAIN fst THEN fst ELSE fst @@ (KeyOf(e) :> e)
Empty == [k \in {} |-> 0]

(* ------------------------------- the properties, on the whole history ----------------------------------- *)
Obs(h) == {h[i] : i \in 1..Len(h)}
SameKeySameDigestOn(h) == \A a, b \in Obs(h) : KeyOf(a) = KeyOf(b) => a.digest = b.digest
LinkedOn(h, k1, k2) == \A a, b \in Obs(h) : a.design = b.design /\ a.kind = k1 /\ b.kind = k2 => a.digest = b.digest
SameKeySameDigest  == SameKeySameDigestOn(hist)
ResetRestoresInit  == LinkedOn(hist, "post_reset_state", "init_state")
ExtractMatchesPlan == LinkedOn(hist, "extract_listing", "plan_files")
Reproducible == SameKeySameDigest /\ ResetRestoresInit /\ ExtractMatchesPlan

(* the monitor is exact: it is silent exactly on the reproducible histories (checked for every producer) *)
MonitorExact == (alarm = "") <=> Reproducible

(* ------------------------------- a small producer ------------------------------------------------------- *)
Keys == Designs \X Kinds
SeedOfDef == [p \in Procs |-> IF p = 0 THEN 0 ELSE p - 1]     \* interpreters 0 and 1 share hash seed 0
GoodTruth == {t \in [Keys -> Digests] :
                 \A d \in Designs : /\ ("post_reset_state" \in Kinds /\ "init_state" \in Kinds
                                            => t[<<d, "post_reset_state">>] = t[<<d, "init_state">>])
                                    /\ ("extract_listing" \in Kinds /\ "plan_files" \in Kinds
                                            => t[<<d, "extract_listing">>] = t[<<d, "plan_files">>])}
Answers(d, k, p, ph) ==
    CASE Mutant = "any" -> Digests
      [] Mutant = "hash_seed_dependent" /\ k = "rtlil" /\ SeedOf[p] # SeedOf[0] -> Digests
      [] Mutant = "rerun_dependent" /\ k = "sim_trace" /\ ph # "first" -> Digests
      [] Mutant = "reset_leaves_state" /\ k = "post_reset_state" -> Digests
      [] Mutant = "extract_skips_file" /\ k = "extract_listing" -> Digests
      [] OTHER -> {truth[<<d, k>>]}

Init == /\ truth \in GoodTruth /\ hist = <<>> /\ first = Empty /\ alarm = ""

Observe(d, k, p, ph, dg) ==
    /\ Len(hist) < MaxObs
    /\ dg \in Answers(d, k, p, ph)
    /\ LET e == [design |-> d, kind |-> k, proc |-> p, seed |-> SeedOf[p], phase |-> ph, digest |-> dg]
       IN /\ hist' = Append(hist, e)
          /\ alarm' = IF alarm # "" THEN alarm ELSE Check(first, e)
          /\ first' = Update(first, e)
    /\ UNCHANGED truth

Next == \E d \in Designs, k \in Kinds, p \in Procs, ph \in Phases, dg \in Digests : Observe(d, k, p, ph, dg)
Spec == Init /\ [][Next]_vars
=============================================================================
