------------------------------ MODULE MC_AmStmt ------------------------------
(* Vocabulary and instances for AmStmt / AmLhs.  The Python renderer (harness/stmt_replay.py)     *)
(* maps the same names to amaranth objects:                                                       *)
(*   inputs a: unsigned(2), b: signed(2);  targets s1: unsigned(3) init 5, s2: signed(3) init -2,  *)
(*   s3: unsigned(2) init 0.                                                                      *)
EXTENDS AmStmt

MSigs == {1, 2, 3}
MSigSh == (1 :> Unsigned(3)) @@ (2 :> Signed(3)) @@ (3 :> Unsigned(2))
MSigInit == (1 :> 5) @@ (2 :> -2) @@ (3 :> 0)

MNV == 144
InA(k) == (k - 1) % 4
InB(k) == FromPat(((k - 1) \div 4) % 4, Signed(2))
PP(k) == ((k - 1) \div 16) % 3
MFsmPrev(f, k) == IF f = 1 THEN (((k - 1) \div 48) % 3) + 1 ELSE (((k - 1) \div 144) % 3) + 1
MPrevOf(s, k) == CASE PP(k) = 0 -> MSigInit[s]
                   [] PP(k) = 1 -> Norm(-1, MSigSh[s])
                   [] PP(k) = 2 -> Norm(2, MSigSh[s])

MExprs == {"a", "b", "a0", "bneg", "aeqb", "c5", "cm1", "cm3", "apb", "z0", "wide", "p3", "p30"}
(* p3 / p30: the register s3 itself / its bit 0, used as a run-time offset or index of a target *)
MRegOf(e) == IF e \in {"p3", "p30"} THEN 3 ELSE 0
MESh == [e \in MExprs |->
          CASE e = "a" -> Unsigned(2) [] e = "b" -> Signed(2) [] e = "a0" -> Unsigned(1) [] e = "bneg" -> Unsigned(1)
            [] e = "aeqb" -> Unsigned(1) [] e = "c5" -> Unsigned(3) [] e = "cm1" -> Signed(1) [] e = "cm3" -> Signed(3)
            [] e = "apb" -> Signed(4) [] e = "z0" -> Unsigned(0) [] e = "wide" -> Unsigned(4)
            [] e = "p3" -> Unsigned(2) [] e = "p30" -> Unsigned(1)]
MEVal(e, k) ==
    CASE e = "a" -> InA(k) [] e = "b" -> InB(k) [] e = "a0" -> InA(k) % 2 [] e = "bneg" -> IF InB(k) < 0 THEN 1 ELSE 0
      [] e = "aeqb" -> IF InA(k) = InB(k) THEN 1 ELSE 0 [] e = "c5" -> 5 [] e = "cm1" -> -1 [] e = "cm3" -> -3
      [] e = "apb" -> InA(k) + InB(k) [] e = "z0" -> 0 [] e = "wide" -> InA(k) + 4 * UPat(InB(k), 2)
      [] e = "p3" -> MPrevOf(3, k) [] e = "p30" -> MPrevOf(3, k) % 2

I(v) == [k |-> "int", v |-> v]
S(w, mask, val) == [k |-> "str", w |-> w, mask |-> mask, val |-> val]
MPatSets(t) ==
    CASE t = "a" -> { <<>>, <<I(1)>>, <<I(0), I(3)>>, <<S(2, 2, 2)>>, <<I(5)>>, <<S(2, 0, 0)>>, <<S(2, 3, 2), S(2, 3, 1)>> }
      [] t = "b" -> { <<I(-1)>>, <<I(1), I(-2)>>, <<S(2, 2, 2)>>, <<I(3)>>, <<S(2, 3, 2)>>, <<S(2, 3, 3), I(0)>> }
      [] t = "z0" -> { <<S(0, 0, 0)>>, <<I(0)>> }
      [] OTHER -> {}

Sg(i) == [k |-> "sig", i |-> i]
Sl(x, lo, hi) == [k |-> "slice", x |-> x, lo |-> lo, hi |-> hi]
Ct(xs) == [k |-> "cat", xs |-> xs]
Pt(x, off, w, stride) == [k |-> "part", x |-> x, off |-> off, w |-> w, stride |-> stride]
Ar(xs, idx) == [k |-> "arr", xs |-> xs, idx |-> idx]
Re(x, s) == [k |-> "rei", x |-> x, s |-> s]

TreesRich == { Sg(1), Sg(2), Sl(Sg(1), 1, 3), Sl(Sg(2), 0, 2), Ct(<<Sg(3), Sl(Sg(1), 0, 2)>>),
               Pt(Sg(1), "a", 2, 1), Pt(Sg(1), "a0", 2, 2), Pt(Sg(2), "a", 1, 1), Ar(<<Sg(1), Sg(3)>>, "a0"),
               Re(Sg(2), FALSE), Sl(Re(Sg(1), TRUE), 1, 3), Sl(Ct(<<Sg(1), Sg(2)>>), 2, 5),
               Pt(Ct(<<Sg(3), Sg(1)>>), "a", 3, 1), Ar(<<Sg(1), Sg(2)>>, "z0"), Ct(<<>>), Sl(Sg(3), 1, 1),
               Pt(Ar(<<Sg(1), Sg(3)>>, "a0"), "a", 2, 1), Pt(Ar(<<Sg(3), Sg(2)>>, "a0"), "a0", 2, 2),
               \* a part select overhanging a window that is narrower than the signal: the overhang is dropped
               Pt(Sl(Sg(1), 0, 2), "a", 2, 1) }
TreesSmall == { Sg(1), Sl(Sg(1), 1, 3), Sg(2) }
(* targets addressed through the register s3 (assigned earlier in the same domain: offsets use its value before the edge) *)
TreesReg == { Pt(Sg(1), "p3", 2, 1), Sl(Pt(Sg(1), "p3", 2, 1), 0, 1), Sl(Pt(Sg(2), "p30", 2, 2), 1, 2),
              Pt(Pt(Sg(1), "p30", 2, 1), "a0", 1, 1), Ar(<<Sg(1), Sg(2)>>, "p30"), Sl(Ar(<<Sg(1), Sg(2)>>, "p30"), 1, 3),
              Re(Pt(Sg(2), "p3", 1, 1), TRUE) }
TargetsReg == {[t |-> x, d |-> "sync"] : x \in TreesReg \cup {Sg(3), Sl(Sg(3), 0, 1)}}
WithDoms(ts) == {[t |-> x, d |-> d] : x \in ts, d \in {"comb", "sync"}}
TargetsRich == WithDoms(TreesRich)
TargetsSmall == WithDoms(TreesSmall)
(* fixed domain per signal for the control-flow instances: s1 comb, s2 sync *)
TargetsCtrl == { [t |-> Sg(1), d |-> "comb"], [t |-> Sl(Sg(1), 1, 3), d |-> "comb"], [t |-> Sg(2), d |-> "sync"] }

CondsRich == {"a", "b", "a0", "bneg", "z0"}
CondsSmall == {"a0", "bneg"}
TestsRich == {"a", "b", "z0"}
TestsSmall == {"a"}
RhsRich == {"a", "b", "c5", "cm1", "cm3", "apb", "wide", "z0"}
RhsSmall == {"cm3", "a"}
RhsOne == {"cm3"}
RhsLhs == {"cm3", "a", "wide"}
CondsOne == {"a0"}
NoTests == {}
TargetsFsm == { [t |-> Sg(1), d |-> "comb"], [t |-> Sg(2), d |-> "sync"] }
NoConds == {}
TargetsOne == { [t |-> Sg(1), d |-> "comb"] }
NoInitArg == {0}
NoStates == {}
ThreeStates == {1, 2, 3}
TwoStates == {1, 2}
NoInits == {}
SomeInits == {0, 2}
===============================================================================
