------------------------------ MODULE ResMgrOps ------------------------------
(* Platform resource tables and the contract of ResourceManager.request (property C19), as    *)
(* pure operators over a table T, so that the model-checking spec (ResMgr) and the trace       *)
(* validator (ResMgrTrace) share one definition of the oracle.                                  *)
(*                                                                                              *)
(* A table (rendered from one Python description, harness/props/c19.py, both to this JSON       *)
(* shape and to amaranth Resource(...)/Connector(...) objects):                                 *)
(*   T.resources  : sequence of nodes; a resource is a node with an extra field `number`        *)
(*   node         : [name, kind \in {"group","pins","diff"}, subs (sequence of nodes, groups),  *)
(*                   names (pin names; positive side for "diff"), nnames (negative side),       *)
(*                   dir \in {"i","o","oe","io"}, invert \in BOOLEAN,                            *)
(*                   has_conn, conn |-> [name, number]   (names are relative to that connector),*)
(*                   clock (period in ns, 0 = no Clock(...))]                                    *)
(*   T.connectors : sequence of [name, number, form \in {"pins","slots"},                        *)
(*                   pins  (sequence of <<connector pin, target>>, dict form),                   *)
(*                   slots (sequence of targets, pin k = k-th slot, "-" = not connected),        *)
(*                   has_conn, conn |-> [name, number]  (targets are pins of that connector)]    *)
(*   T.reqs       : the request vocabulary explored by TLC: sequence of requests (below)         *)
(* A request: [name, number, dir, xdr]; dir / xdr are per-leaf sequences (declared depth-first   *)
(* order): dir[k] \in {"none","-","i","o","oe","io"} ("none" = no override),                     *)
(* xdr[k] \in -1..3 (-1 = no override).                                                          *)
EXTENDS Naturals, Integers, Sequences, FiniteSets, TLC

Range(s) == {s[k] : k \in DOMAIN s}

RECURSIVE ConcatAll(_)
ConcatAll(ss) == IF ss = <<>> THEN <<>> ELSE Head(ss) \o ConcatAll(Tail(ss))

NoDup(s) == \A a, b \in DOMAIN s : a # b => s[a] # s[b]

(* ---------------------------------- the table ---------------------------------------------- *)
RefOf(x) == <<x.name, x.number>>
HasRes(T, id) == \E k \in DOMAIN T.resources : RefOf(T.resources[k]) = id
Res(T, id) == T.resources[CHOOSE k \in DOMAIN T.resources : RefOf(T.resources[k]) = id]
HasConn(T, ref) == \E k \in DOMAIN T.connectors : RefOf(T.connectors[k]) = ref
Conn(T, ref) == T.connectors[CHOOSE k \in DOMAIN T.connectors : RefOf(T.connectors[k]) = ref]

(* leaves of a resource in declared (depth-first) order, each with the path of subsignal names *)
RECURSIVE Leaves(_, _)
Leaves(node, path) ==
    IF node.kind = "group"
    THEN ConcatAll([k \in DOMAIN node.subs |-> Leaves(node.subs[k], Append(path, node.subs[k].name))])
    ELSE << [path |-> path, io |-> node] >>

(* pins of a connector: set of <<pin name, target>> *)
ConnPins(c) ==
    IF c.form = "slots"
    THEN {<<ToString(k), c.slots[k]>> : k \in {j \in DOMAIN c.slots : c.slots[j] # "-"}}
    ELSE {<<c.pins[k][1], c.pins[k][2]>> : k \in DOMAIN c.pins}

(* the physical pin behind pin `pin` of connector `ref`, following chains of connectors; "?" if *)
(* the pin does not exist (tables with such pins are rejected by TableOK)                        *)
RECURSIVE Resolve(_, _, _, _)
Resolve(T, ref, pin, fuel) ==
    IF fuel = 0 \/ ~HasConn(T, ref) THEN "?"
    ELSE LET c    == Conn(T, ref)
             hits == {pt \in ConnPins(c) : pt[1] = pin}
         IN IF hits = {} THEN "?"
            ELSE LET tgt == (CHOOSE pt \in hits : TRUE)[2]
                 IN IF c.has_conn THEN Resolve(T, RefOf(c.conn), tgt, fuel - 1) ELSE tgt

Phys(T, io, names) ==
    [k \in DOMAIN names |-> IF io.has_conn THEN Resolve(T, RefOf(io.conn), names[k], Len(T.connectors) + 1)
                            ELSE names[k]]
PPins(T, io) == Phys(T, io, io.names)
NPins(T, io) == IF io.kind = "diff" THEN Phys(T, io, io.nnames) ELSE <<>>

PortDir(d) == IF d = "oe" THEN "o" ELSE d          \* direction carried by the returned port

(* ---------------------------------- requests ----------------------------------------------- *)
(* "direction can be changed from io to i, o, or oe, or from anything to -" *)
DirOK(decl, d) == d \in {"none", "-"} \/ d = decl \/ (decl = "io" /\ d \in {"i", "o", "oe", "io"})
EffDir(decl, d) == IF d = "none" THEN decl ELSE d
XdrOK(eff, x) == eff = "-" \/ x \in {-1, 0, 1, 2}

(* what a resource offers for one leaf, before any override: the physical pins in declared order *)
(* (connector-relative names resolved), the declared inversion and direction                        *)
BasePort(T, l) ==
    [path |-> l.path, diff |-> l.io.kind = "diff",
     p |-> PPins(T, l.io), n |-> NPins(T, l.io),
     invert |-> l.io.invert, direction |-> PortDir(l.io.dir), decl |-> l.io.dir, clock |-> l.io.clock]
ResPorts(T, id) == LET lv == Leaves(Res(T, id), <<>>) IN [k \in DOMAIN lv |-> BasePort(T, lv[k])]

(* what the returned object describes for one leaf of a granted request *)
PortOf(b, d, x) ==
    [path |-> b.path, diff |-> b.diff, p |-> b.p, n |-> b.n, invert |-> b.invert, direction |-> b.direction,
     dir |-> EffDir(b.decl, d), xdr |-> IF x = -1 \/ EffDir(b.decl, d) = "-" THEN 0 ELSE x,
     clock |-> b.clock]

PortPinSeq(ports) == ConcatAll([k \in DOMAIN ports |-> ports[k].p \o ports[k].n])
PortPins(ports) == Range(PortPinSeq(ports))

ErrClass(k) == IF k \in {"unknown", "already_requested", "pin_conflict"} THEN "ResourceError" ELSE "OtherError"
ErrClasses(why) == {ErrClass(k) : k \in why}

(* The contract. requested: set of <<name, number>>; owner: function physical pin -> <<id, path>>.  *)
(* A request is refused iff some reason in `why` applies (all applicable reasons are listed; which *)
(* one the implementation reports first is not specified), otherwise granted with `ports`.         *)
(* has / base: whether the table has the resource, and its ResPorts.                               *)
OutcomeFrom(has, base, requested, owner, q) ==
    LET id == <<q.name, q.number>> IN
    IF ~has THEN [kind |-> "refuse", id |-> id, why |-> {"unknown"}, ports |-> <<>>]
    ELSE
    LET why == (IF id \in requested THEN {"already_requested"} ELSE {})
               \cup (IF \E k \in DOMAIN base : ~DirOK(base[k].decl, q.dir[k]) THEN {"bad_dir"} ELSE {})
               \cup (IF \E k \in DOMAIN base : ~XdrOK(EffDir(base[k].decl, q.dir[k]), q.xdr[k]) THEN {"bad_xdr"} ELSE {})
               \cup (IF PortPins(base) \cap DOMAIN owner # {} THEN {"pin_conflict"} ELSE {})
    IN IF why = {} THEN [kind |-> "grant", id |-> id, why |-> {},
                         ports |-> [k \in DOMAIN base |-> PortOf(base[k], q.dir[k], q.xdr[k])]]
       ELSE [kind |-> "refuse", id |-> id, why |-> why, ports |-> <<>>]

Outcome(T, requested, owner, q) ==
    LET has == HasRes(T, <<q.name, q.number>>)
    IN OutcomeFrom(has, IF has THEN ResPorts(T, <<q.name, q.number>>) ELSE <<>>, requested, owner, q)

OwnerOf(id, ports) ==
    [pin \in PortPins(ports) |-> <<id, ports[CHOOSE k \in DOMAIN ports : pin \in Range(ports[k].p) \cup Range(ports[k].n)].path>>]

(* what is remembered of a granted request (independent of dir/xdr overrides) *)
View(ports) == [k \in DOMAIN ports |-> [path |-> ports[k].path, diff |-> ports[k].diff, p |-> ports[k].p,
                                         n |-> ports[k].n, clock |-> ports[k].clock]]

(* a seeded design error (Mutant = "leak_partial"): the pins examined before the first conflicting *)
(* one stay allocated to the refused request                                                        *)
LeakedPins(owner, ports) ==
    LET s     == PortPinSeq(ports)
        first == CHOOSE a \in DOMAIN s : s[a] \in DOMAIN owner /\ \A b \in 1..(a - 1) : s[b] \notin DOMAIN owner
    IN {s[b] : b \in 1..(first - 1)}

(* ---------------------------------- constraints -------------------------------------------- *)
(* granted: function id -> View(ports).  Location constraints: <<id, path, "io"|"p"|"n", bit, pin>>  *)
(* (bit 0-based); clock constraints: <<id, path, "io"|"p", period ns>>.                              *)
Pol(v) == IF v.diff THEN "p" ELSE "io"
PinConstraints(granted) ==
    UNION {UNION {{<<id, granted[id][k].path, Pol(granted[id][k]), b - 1, granted[id][k].p[b]>> : b \in DOMAIN granted[id][k].p}
                  \cup {<<id, granted[id][k].path, "n", b - 1, granted[id][k].n[b]>> : b \in DOMAIN granted[id][k].n}
                  : k \in DOMAIN granted[id]} : id \in DOMAIN granted}
ClockConstraints(granted) ==
    UNION {{<<id, granted[id][k].path, Pol(granted[id][k]), granted[id][k].clock>>
            : k \in {j \in DOMAIN granted[id] : granted[id][j].clock # 0}} : id \in DOMAIN granted}
Constraints(granted) == [pins |-> PinConstraints(granted), clocks |-> ClockConstraints(granted)]

(* ---------------------------------- well-formed tables ------------------------------------- *)
(* excluded as unspecified: pins that do not resolve, a resource naming one physical pin twice,     *)
(* duplicate resource / connector identities, request vectors of the wrong length                    *)
TableOK(T) ==
    /\ \A a, b \in DOMAIN T.resources : a # b => RefOf(T.resources[a]) # RefOf(T.resources[b])
    /\ \A a, b \in DOMAIN T.connectors : a # b => RefOf(T.connectors[a]) # RefOf(T.connectors[b])
    /\ \A k \in DOMAIN T.resources :
          LET ps == PortPinSeq(ResPorts(T, RefOf(T.resources[k]))) IN NoDup(ps) /\ "?" \notin Range(ps) /\ Len(ps) > 0
ReqOK(T, q) ==
    HasRes(T, <<q.name, q.number>>) =>
        LET c == Len(Leaves(Res(T, <<q.name, q.number>>), <<>>)) IN Len(q.dir) = c /\ Len(q.xdr) = c
=============================================================================
