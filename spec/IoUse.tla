------------------------------- MODULE IoUse -------------------------------
(* Builder for the last clause of property C18: "every bit of a real I/O port is used by exactly one   *)
(* buffer cell".  Every initial state is one design (IoBuf, section "use sets"): 1..3 buffers on        *)
(* slices of one or two core I/O ports of the same width, together with the specification's verdict      *)
(* exp.ok = Accepted (no pad bit used twice).  harness/props/c18.py builds every design from real        *)
(* IOPort / SingleEndedPort / DifferentialPort / IOBufferInstance / lib.io.Buffer / FFBuffer objects:     *)
(* refused designs must raise DriverConflict when the netlist is built, accepted ones must not (their     *)
(* netlists are judged by IoBufTrace).  The style says how the buffers are written down:                  *)
(*   raw_lines   IOBufferInstance, each created on a source line of its own                               *)
(*   raw_loop    IOBufferInstance, all created on one line (comprehension)                                *)
(*   raw_helper  IOBufferInstance, all created by one helper function                                     *)
(*   comb_C / ff_C   lib.io.Buffer / FFBuffer on ports of class C (se = SingleEndedPort, diff =           *)
(*               DifferentialPort); their instances are created at fixed lines of lib/io.py               *)
(*   mixed_C     Buffer, IOBufferInstance (helper), FFBuffer in this order                                *)
(* The source line (site) must not matter for the verdict.                                                *)
EXTENDS IoBuf, TLC

CONSTANTS Plans,       \* set of enumeration plans [widths, nbufs, bdirs, npads, maxseg] (defined in MC_IoUse):
                       \*   widths of the pads (all pads of a design have the same width), numbers of buffers,
                       \*   buffer directions, number of pads, a buffer's port has 1..maxseg slices
          Styles

VARIABLES d, exp
vars == <<d, exp>>

KindOf(style, k) ==
    CASE style \in {"raw_lines", "raw_loop", "raw_helper"} -> "raw"
      [] style \in {"comb_se", "comb_diff"} -> "comb"
      [] style \in {"ff_se", "ff_diff"} -> "ff"
      [] OTHER -> <<"comb", "raw", "ff">>[k]
ClsOf(style) == IF style \in {"comb_diff", "ff_diff", "mixed_diff"} THEN "diff" ELSE "se"
SiteOf(style, k, bdir) ==
    IF KindOf(style, k) # "raw" THEN "lib_" \o bdir
    ELSE IF style = "raw_lines" THEN "line_" \o ToString(k) ELSE "line"

Segs(pl, w) == {[pad |-> pad, lo |-> lo, hi |-> hi] : pad \in 1..pl.npads, lo \in 0..w, hi \in 0..w}
SegSeqs(pl, w) == LET S == {sg \in Segs(pl, w) : sg.lo < sg.hi}
                  IN {<<a>> : a \in S} \cup (IF pl.maxseg >= 2 THEN {<<a, b>> : a \in S, b \in S} ELSE {})
Shapes(pl, w) == {[bdir |-> bd, segs |-> sq] : bd \in pl.bdirs, sq \in SegSeqs(pl, w)}
Design(pl, style, w, shapes) ==
    [style |-> style, cls |-> ClsOf(style), padw |-> [q \in 1..pl.npads |-> w],
     bufs |-> [k \in 1..Len(shapes) |->
                 [kind |-> KindOf(style, k), bdir |-> shapes[k].bdir, segs |-> shapes[k].segs,
                  neg |-> k % 2 = 0, site |-> SiteOf(style, k, shapes[k].bdir)]]]
Expect(x) == [ok |-> Accepted(x.bufs, x.padw), uses |-> Len(AllUses(x.bufs, x.padw))]

Init == \E pl \in Plans, style \in Styles :
            \E w \in pl.widths, nb \in pl.nbufs :
                \E shapes \in [1..nb -> Shapes(pl, w)] :
                    /\ d = Design(pl, style, w, shapes)
                    /\ exp = Expect(d)
Next == UNCHANGED vars
Spec == Init /\ [][Next]_vars

UseLaws == UseLaw(d.bufs, d.padw)
PortsOK == \A k \in 1..Len(d.bufs) : WellFormed(BufPort(d.bufs[k], d.padw))
=============================================================================
