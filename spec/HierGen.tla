------------------------------ MODULE HierGen ------------------------------
(* Generator of small design descriptions for C07 (well-formedness of emitted RTLIL): every     *)
(* reachable state is one design.  A design is a module tree, a sequence of signals and a       *)
(* sequence of extras; harness/props/c07.py renders it with real amaranth Modules, purely        *)
(* syntactically:                                                                              *)
(*                                                                                             *)
(*   shape   "top" | "child" (top > m2) | "sibs" (top > m2, m3) | "chain" (top > m2 > m3)       *)
(*   subn    names under which m2, m3 are added to their parent ("" = anonymous)                *)
(*   sinkop  whether the per-module reader computes something (TRUE: `sink.eq(Cat(reads) + 1)`) *)
(*           or only renames (`sink.eq(Cat(reads))`, which leaves a module without any cell)    *)
(*   sigs[i] [n name, w width, drv module driving it (0 = nobody), kind how, rd set of modules   *)
(*            reading it, port how it appears in the ports list]                                *)
(*           kind  "none" | "alias" (comb, s.eq(x)) | "not" (comb, s.eq(~x)) | "sync"            *)
(*                 where x = Cat of the earlier signals read in the driving module (or 1)       *)
(*           port  "no" | "auto" (ports=[..., s]) | "named" (ports=[..., (PortName[i], s, None)]) *)
(*   extras[k] [k kind, at module, nm name]: a memory, a foreign Instance with parameters,        *)
(*           attributes and i/o/io ports, I/O buffers, empty submodules, Print/Assert, formal    *)
(*           cells, all wired to a dedicated 2-bit top-level input "pi"                         *)
(*                                                                                             *)
(* Only designs that amaranth documents as legal are generated (invariant Legit): a signal with  *)
(* a private name is never an unnamed port, two submodules of one module never share a name,     *)
(* combinational drivers read lower-numbered signals only (no loops), one driver per signal.     *)
EXTENDS Integers, Sequences, FiniteSets, TLC

CONSTANTS Shapes,        \* subset of {"top", "child", "sibs", "chain"}
          SubNameSeqs,   \* set of pairs <<name of m2, name of m3>>
          SinkOps,       \* subset of BOOLEAN
          Names, Widths, MaxSigs,
          Kinds,         \* subset of {"none", "alias", "not", "sync"}
          RdMode,        \* "top1": read in top; "top": in top or nowhere; "one": nowhere or one module; "any": any set
          PortModes,     \* subset of {"no", "auto", "named"}
          ExtraKinds, ExtraNames, MaxExtras,
          PrivatePortsAllowed   \* FALSE; TRUE is the mutant that must violate Legit

VARIABLES shape, subn, sinkop, sigs, extras
vars == <<shape, subn, sinkop, sigs, extras>>

Parent(sh) == IF sh = "top" THEN <<0>> ELSE IF sh = "child" THEN <<0, 1>>
              ELSE IF sh = "sibs" THEN <<0, 1, 1>> ELSE <<0, 1, 2>>
NM == Len(Parent(shape))
Mods == 1..NM

RdChoices == IF RdMode = "top" THEN {{}, {1}}
             ELSE IF RdMode = "top1" THEN {{1}}
             ELSE IF RdMode = "one" THEN {{}} \cup {{k} : k \in Mods}
             ELSE SUBSET Mods

(* names already taken by submodules of module k *)
SubNamesAt(k) == {subn[i - 1] : i \in {i \in 2..NM : Parent(shape)[i] = k}}
                 \cup {extras[i].nm : i \in {i \in DOMAIN extras : extras[i].at = k}}

Init == /\ shape \in Shapes /\ subn \in SubNameSeqs /\ sinkop \in SinkOps
        /\ sigs = <<>> /\ extras = <<>>
        /\ (shape = "sibs" /\ subn[1] # "" => subn[1] # subn[2])

AddSig ==
    /\ Len(sigs) < MaxSigs /\ extras = <<>>
    /\ \E n \in Names, w \in Widths, drv \in 0..NM, kind \in Kinds, rd \in RdChoices, port \in PortModes :
        /\ (kind = "none") = (drv = 0)
        /\ PrivatePortsAllowed \/ (port = "auto" => n # "")
        /\ drv # 0 \/ rd # {} \/ port # "no"              \* otherwise the signal is not part of the design at all
        /\ sigs' = Append(sigs, [n |-> n, w |-> w, drv |-> drv, kind |-> kind, rd |-> rd, port |-> port])
    /\ UNCHANGED <<shape, subn, sinkop, extras>>

AddExtra ==
    /\ Len(extras) < MaxExtras
    /\ \E k \in ExtraKinds, at \in Mods, nm \in ExtraNames :
        /\ nm = "" \/ nm \notin SubNamesAt(at)
        /\ extras' = Append(extras, [k |-> k, at |-> at, nm |-> nm])
    /\ UNCHANGED <<shape, subn, sinkop, sigs>>

Next == AddSig \/ AddExtra
Spec == Init /\ [][Next]_vars

(* the generator only produces designs the language accepts *)
Legit ==
    /\ \A i \in DOMAIN sigs : /\ (sigs[i].port = "auto" => sigs[i].n # "")
                              /\ ((sigs[i].kind = "none") = (sigs[i].drv = 0))
                              /\ sigs[i].drv \in 0..NM /\ sigs[i].rd \subseteq Mods
    /\ \A k \in Mods :
         LET taken == [i \in 1..(NM - 1) |-> IF Parent(shape)[i + 1] = k THEN subn[i] ELSE ""]
                      \o [i \in DOMAIN extras |-> IF extras[i].at = k THEN extras[i].nm ELSE ""]
         IN \A i, j \in DOMAIN taken : i < j /\ taken[i] # "" => taken[i] # taken[j]
=============================================================================
