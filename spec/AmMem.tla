------------------------------ MODULE AmMem ------------------------------
(* Property C11: a memory with any number of read and write ports behaves as an array of rows.          *)
(* State machine over the semantics of AmMemOps: TLC explores, for configuration number Cid of the      *)
(* model file, every sequence of events                                                                 *)
(*     Edge(D, inp)   the clocks in D rise together while the ports hold the inputs inp                 *)
(*     TbWrite(i, v)  a testbench writes row i directly (ctx.set(mem.data[i-1], v))                    *)
(*     TbRead(i)      a testbench reads row i directly (no effect on the state)                         *)
(* up to MaxLevel events (0 = the whole reachable graph), and checks at every transition that the       *)
(* operational step function (StepRows/StepLat) satisfies the declarative contract (Clause): `bad` is   *)
(* the name of the contract clause broken by the transition that led to the current state.              *)
(* The state graph (-dump dot,actionlabels) provides the event sequences replayed on the real Memory    *)
(* (harness/props/c11.py, stage tours).                                                                 *)
(*                                                                                                      *)
(* Model file (env MODEL_FILE, JSON):  {"configs": [ {"cfg": <configuration, see AmMemOps>,             *)
(*     "addrs": [...], "datas": [[raw data words of write port j]...], "wens": [[enable masks of j]...],*)
(*     "edges": [D...], "tbvals": [...row values in API form...]} ... ]}                                *)
(* Inputs of ports that cannot act in an event (their clock does not rise; asynchronous read ports;     *)
(* disabled ports' address and data) do not influence the state; they are fixed to 0 in the labels and  *)
(* chosen freely by the harness when the walk is replayed.                                              *)
(* Undefined behaviour is not excluded from the exploration: collisions and out-of-range / cross-domain *)
(* reads produce unknown bits (X).                                                                      *)
EXTENDS AmMemOps, TLC, Json, IOUtils

CONSTANTS Cid,           \* which configuration of the model file (the event alphabet must be constant-level
                         \* for TLC to print the parameters of each Edge in the dumped graph)
          Mutant,        \* "" or the name of a seeded error in the step function (see AmMemOps)
          MaxLevel       \* bound on the number of events (0: none)

Model == JsonDeserialize(IOEnv.MODEL_FILE)
NConfigs == Len(Model.configs)

ASSUME \A n \in 1..NConfigs : WellFormed(Model.configs[n].cfg)

ASSUME Cid \in 1..NConfigs

VARIABLES rows, lat, bad
vars == <<rows, lat, bad>>

M == Model.configs[Cid]
C == M.cfg
Ran(s) == {s[n] : n \in 1..Len(s)}

(* ---- the input alphabet of an event ---------------------------------------------------------------- *)
RdChoices(k, D) ==
    IF IsSync(C, k) /\ Rises(C.rp[k].dom, D)
    THEN {<<0, 0>>} \cup {<<a, 1>> : a \in Ran(M.addrs)}
    ELSE {<<0, 1>>}
WrChoices(j, D) ==
    IF Rises(C.wp[j].dom, D)
    THEN {<<0, 0, 0>>} \cup {<<a, d, e>> : a \in Ran(M.addrs), d \in Ran(M.datas[j]), e \in Ran(M.wens[j]) \ {0}}
    ELSE {<<0, 0, 0>>}
RdAll(D) == {f \in [1..NR(C) -> UNION {RdChoices(k, D) : k \in 1..NR(C)}] : \A k \in 1..NR(C) : f[k] \in RdChoices(k, D)}
WrAll(D) == {f \in [1..NW(C) -> UNION {WrChoices(j, D) : j \in 1..NW(C)}] : \A j \in 1..NW(C) : f[j] \in WrChoices(j, D)}
Inputs(D) == {<<[k \in 1..NR(C) |-> r[k][1]], [k \in 1..NR(C) |-> r[k][2]],
                [j \in 1..NW(C) |-> w[j][1]], [j \in 1..NW(C) |-> w[j][2]], [j \in 1..NW(C) |-> w[j][3]]>> :
              r \in RdAll(D), w \in WrAll(D)}

(* ---- behaviour ------------------------------------------------------------------------------------- *)
Init == /\ rows = InitRows(C)
        /\ lat = [k \in 1..NR(C) |-> Unknown(C.w)]      \* nothing captured yet: not specified
        /\ bad = ""

Edge(D, inp) ==
    /\ rows' = StepRows(C, Mutant, D, inp, rows)
    /\ lat' = StepLat(C, Mutant, D, inp, rows, lat)
    /\ bad' = Clause(C, D, inp, rows, lat, rows', lat')

TbWrite(i, v) ==
    /\ rows' = TbWriteRows(C, rows, i, v)
    /\ bad' = ""
    /\ UNCHANGED lat

TbRead(i) ==
    /\ i \in 1..C.depth
    /\ bad' = ""
    /\ UNCHANGED <<rows, lat>>

Next == \/ \E D \in Ran(M.edges) : \E inp \in Inputs(D) : Edge(D, inp)
        \/ \E i \in 1..C.depth : \E v \in Ran(M.tbvals) : TbWrite(i, v)
        \/ \E i \in 1..C.depth : TbRead(i)
Spec == Init /\ [][Next]_vars

Bounded == MaxLevel = 0 \/ TLCGet("level") <= MaxLevel

(* ---- invariants ------------------------------------------------------------------------------------ *)
TriBits == {0, 1, X}
(* rows always within the row shape: depth rows of exactly w bits; unknown bits only where two ports can collide *)
RowsInShape ==
    /\ DOMAIN rows = 1..C.depth
    /\ \A a \in 1..C.depth : /\ DOMAIN rows[a] = 1..C.w
                             /\ \A i \in 1..C.w : rows[a][i] \in TriBits
                             /\ NW(C) < 2 => Concrete(rows[a])
OutputsInShape ==
    /\ DOMAIN lat = 1..NR(C)
    /\ \A k \in 1..NR(C) : DOMAIN lat[k] = 1..C.w /\ \A i \in 1..C.w : lat[k][i] \in TriBits
(* one invariant per clause of the contract, so that a mutant is attributed to the clause it breaks *)
WriteBeyondDepthChangesNothing == bad # "rows_changed_without_an_enabled_write_in_range"
FrameCondition                 == bad # "bit_changed_that_no_port_wrote"
EnabledGranulesWritten         == bad # "enabled_granule_not_replaced_by_write_data"
DisabledReadPortHolds          == bad # "read_port_not_capturing_changed_its_output"
ReadCapturesOldRow             == bad # "sync_read_did_not_capture_the_row_as_before_the_edge"
TransparentReadSeesNewData     == bad # "transparent_read_did_not_capture_the_written_data"
ContractHolds                  == bad = ""
(* a memory without write ports keeps its initial contents unless a testbench writes (none configured) *)
RomKeepsInit == (NW(C) = 0 /\ Len(M.tbvals) = 0) => rows = InitRows(C)
=============================================================================
