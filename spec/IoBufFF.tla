------------------------------ MODULE IoBufFF ------------------------------
(* FFBuffer of property C18 as a state machine (IoBuf!FFTick) for one port of width W, explored   *)
(* over every inversion mask, every buffer direction and every sequence of events                  *)
(*   Tick(ei, eo, o, oe, pin): inputs o / oe / port input pin are applied, then the i_domain       *)
(*   (ei) and / or the o_domain (eo) have an active edge.                                           *)
(* Theorem Latency1 ("exactly one register stage in each direction"): at any time the port shows   *)
(* what a combinational Buffer showed at the last o_domain edge, and `i` shows what a               *)
(* combinational Buffer read from the wire at the last i_domain edge.  The history variable h       *)
(* records those two snapshots using the Buffer equations only.                                     *)
(* The state graph (-dump dot,actionlabels) is the source of the edge tours replayed on the real    *)
(* io.FFBuffer by harness/props/c18.py.                                                             *)
EXTENDS IoBuf, TLC

CONSTANT W

VARIABLES inv, bdir, r, h
vars == <<inv, bdir, r, h>>

Stim(ei, eo, o, oe, pin) ==
    [ei |-> ei, eo |-> eo, o |-> NatToBits(o, W), oe |-> oe, pin |-> NatToBits(pin, W)]

Init == /\ inv \in Bits(W) /\ bdir \in Dirs /\ r = FFInit(W)
        /\ h = [ov |-> FALSE, po |-> Zeros(W), poe |-> Zeros(W), iv |-> FALSE, bi |-> Zeros(W)]

Tick(ei, eo, o, oe, pin) ==
    LET s == Stim(ei, eo, o, oe, pin)
        c == BufObs(bdir, inv, s)
        oedge == eo /\ bdir # "i"
        iedge == ei /\ bdir # "o"
    IN /\ r' = FFTick(bdir, inv, r, s)
       /\ h' = [ov  |-> h.ov \/ oedge,
                po  |-> IF oedge THEN c.po ELSE h.po,
                poe |-> IF oedge THEN c.poe ELSE h.poe,
                iv  |-> IF iedge THEN (bdir = "i" \/ h.ov) ELSE h.iv,
                bi  |-> IF iedge THEN BufI(Wire(bdir, h.po, h.poe, s.pin), inv) ELSE h.bi]
       /\ UNCHANGED <<inv, bdir>>

Next == \E ei, eo, oe \in BOOLEAN : \E o, pin \in 0..(2 ^ W - 1) : Tick(ei, eo, o, oe, pin)
Spec == Init /\ [][Next]_vars

Latency1 ==
    LET ob == FFObs(bdir, inv, r) IN
    /\ ob.ov = (bdir # "i" /\ h.ov) /\ ob.iv = (bdir # "o" /\ h.iv)
    /\ ob.ov => ob.po = h.po /\ ob.poe = h.poe
    /\ ob.iv => ob.bi = h.bi
(* an output-only buffer has no input register, an input-only buffer no output registers *)
UnusedRegs == /\ bdir = "o" => r.ireg = Zeros(W) /\ ~r.iv
              /\ bdir = "i" => r.oreg = Zeros(W) /\ ~r.oereg /\ ~r.ov
=============================================================================
