------------------------------ MODULE RtlilWF ------------------------------
(* Structural well-formedness of an RTLIL document (property C07).                              *)
(*                                                                                             *)
(* Written from the Yosys manual ("RTLIL text representation", "Internal cell library") and    *)
(* the statement of C07, not from amaranth/back/rtlil.py.  A document is the output of the      *)
(* strict reader harness/rtlil_parse.py (grammar violations never get here: they are reported   *)
(* by the reader), restructured into positional tuples by rtlil_parse.wf_document -- a plain    *)
(* re-arrangement; every judgement (existence, width arithmetic, bounds, counting drivers,      *)
(* comparing parameter values) is made below.                                                  *)
(*                                                                                             *)
(* A batch of documents is read from the JSON file named by the environment variable           *)
(* TRACE_FILE; document tid is judged in its own behaviour, one module per step.  The verdict   *)
(* is total: <<"ACC", tid, #modules, #wire bits whose drivers were counted, #cells>> or         *)
(* <<"REJ", tid, module name, clause, detail>> for the first module / first clause that fails.  *)
(*                                                                                             *)
(* document = [mods |-> << module... >>, foreign |-> << instance description... >>, origin]      *)
(* module   = [name, attrs |-> << <<name, const>>... >>,                                        *)
(*             wires |-> << <<name, width, dir, port id, line>>... >>   dir: "" input output inout *)
(*             mems  |-> << <<name, width, size, line>>... >>,                                   *)
(*             cells |-> << <<type, name, params, conns, attrs, line>>... >>                     *)
(*                       params/attrs: << <<name, const>>... >>, conns: << <<port, sigspec>>... >> *)
(*             procs |-> << <<name, assigns, switches, line>>... >>                              *)
(*                       assigns: << <<lhs, rhs, line>>... >>  (all branches, flattened)         *)
(*                       switches: << <<sel, << <<pattern...>>... >>, line>>... >>               *)
(*             conns |-> << <<lhs, rhs, line>>... >>]                                            *)
(* sigspec  = << chunk... >> least significant first; chunk = <<kind, name, lo, hi>>:           *)
(*            "c" constant (name = << digit... >>, lo = 0, hi = #digits - 1), "w" bits lo..hi of *)
(*            wire name, "W" the whole wire.                                                    *)
(* const    = <<"int", v, <<>>, flag>> | <<"bits", width, <<digit...>> LSB first, flag>>         *)
(*          | <<"str", 0, <<>>, text>> | <<"real", 0, <<>>, text>>       flag: "signed" or ""   *)
(* foreign  = <<type, params, attrs, << <<port, "i"|"o"|"io", width, expected sigspec or <<>> >>... >> >> *)
EXTENDS Integers, Sequences, FiniteSets, Json, IOUtils, TLC, TLCExt

Batch == JsonDeserialize(IOEnv.TRACE_FILE)
Docs  == Batch.traces

VARIABLES tid, mi, acc, verdict
vars == <<tid, mi, acc, verdict>>

(* ------------------------------------------------------------------------------------------ *)
(* generic helpers                                                                             *)
(* ------------------------------------------------------------------------------------------ *)
Range(s) == {s[i] : i \in DOMAIN s}
Distinct(s) == Cardinality(Range(s)) = Len(s)
FirstDup(s) == LET i == CHOOSE i \in DOMAIN s : \E j \in DOMAIN s : j < i /\ s[j] = s[i] IN s[i]

RECURSIVE Flat(_)
Flat(ss) == IF ss = <<>> THEN <<>> ELSE Head(ss) \o Flat(Tail(ss))

RECURSIVE SumSeq(_)
SumSeq(s) == IF s = <<>> THEN 0 ELSE Head(s) + SumSeq(Tail(s))

Col(s, k) == [i \in DOMAIN s |-> s[i][k]]
OK == <<>>                      \* a clause that holds has no witness

(* ------------------------------------------------------------------------------------------ *)
(* the internal cell library: type -> << <<port, direction, width parameter, second factor>> >> *)
(* (width = product of the named integer parameters; "" stands for 1)                          *)
(* ------------------------------------------------------------------------------------------ *)
Unary  == {"$not", "$neg", "$pos", "$reduce_and", "$reduce_or", "$reduce_xor", "$reduce_xnor", "$reduce_bool",
           "$logic_not"}
Binary == {"$add", "$sub", "$mul", "$div", "$mod", "$divfloor", "$modfloor", "$shl", "$shr", "$sshl", "$sshr",
           "$shift", "$shiftx", "$and", "$or", "$xor", "$xnor", "$eq", "$ne", "$eqx", "$nex", "$lt", "$le", "$gt",
           "$ge", "$logic_and", "$logic_or", "$pow"}
AnyVal == {"$anyconst", "$anyseq", "$allconst", "$allseq"}
MemCells == {"$meminit_v2", "$memwr_v2", "$memrd_v2"}
Others == {"$mux", "$pmux", "$tribuf", "$dff", "$dffe", "$adff", "$print", "$check", "$initstate"}
KnownCells == Unary \cup Binary \cup AnyVal \cup MemCells \cup Others

PortSpec(t) ==
    IF t \in Unary THEN << <<"\\A", "in", "\\A_WIDTH", "">>, <<"\\Y", "out", "\\Y_WIDTH", "">> >>
    ELSE IF t \in Binary THEN << <<"\\A", "in", "\\A_WIDTH", "">>, <<"\\B", "in", "\\B_WIDTH", "">>,
                                 <<"\\Y", "out", "\\Y_WIDTH", "">> >>
    ELSE IF t \in AnyVal THEN << <<"\\Y", "out", "\\WIDTH", "">> >>
    ELSE IF t = "$mux" THEN << <<"\\A", "in", "\\WIDTH", "">>, <<"\\B", "in", "\\WIDTH", "">>, <<"\\S", "in", "", "">>,
                               <<"\\Y", "out", "\\WIDTH", "">> >>
    ELSE IF t = "$pmux" THEN << <<"\\A", "in", "\\WIDTH", "">>, <<"\\B", "in", "\\WIDTH", "\\S_WIDTH">>,
                                <<"\\S", "in", "\\S_WIDTH", "">>, <<"\\Y", "out", "\\WIDTH", "">> >>
    ELSE IF t = "$tribuf" THEN << <<"\\A", "in", "\\WIDTH", "">>, <<"\\EN", "in", "", "">>, <<"\\Y", "out", "\\WIDTH", "">> >>
    ELSE IF t = "$dff" THEN << <<"\\D", "in", "\\WIDTH", "">>, <<"\\CLK", "in", "", "">>, <<"\\Q", "out", "\\WIDTH", "">> >>
    ELSE IF t = "$dffe" THEN << <<"\\D", "in", "\\WIDTH", "">>, <<"\\CLK", "in", "", "">>, <<"\\EN", "in", "", "">>,
                                <<"\\Q", "out", "\\WIDTH", "">> >>
    ELSE IF t = "$adff" THEN << <<"\\D", "in", "\\WIDTH", "">>, <<"\\CLK", "in", "", "">>, <<"\\ARST", "in", "", "">>,
                                <<"\\Q", "out", "\\WIDTH", "">> >>
    ELSE IF t = "$meminit_v2" THEN << <<"\\ADDR", "in", "\\ABITS", "">>, <<"\\DATA", "in", "\\WIDTH", "\\WORDS">>,
                                      <<"\\EN", "in", "\\WIDTH", "">> >>
    ELSE IF t = "$memwr_v2" THEN << <<"\\ADDR", "in", "\\ABITS", "">>, <<"\\DATA", "in", "\\WIDTH", "">>,
                                    <<"\\EN", "in", "\\WIDTH", "">>, <<"\\CLK", "in", "", "">> >>
    ELSE IF t = "$memrd_v2" THEN << <<"\\ADDR", "in", "\\ABITS", "">>, <<"\\DATA", "out", "\\WIDTH", "">>,
                                    <<"\\EN", "in", "", "">>, <<"\\CLK", "in", "", "">>, <<"\\ARST", "in", "", "">>,
                                    <<"\\SRST", "in", "", "">> >>
    ELSE IF t = "$print" THEN << <<"\\EN", "in", "", "">>, <<"\\ARGS", "in", "\\ARGS_WIDTH", "">>,
                                 <<"\\TRG", "in", "\\TRG_WIDTH", "">> >>
    ELSE IF t = "$check" THEN << <<"\\EN", "in", "", "">>, <<"\\ARGS", "in", "\\ARGS_WIDTH", "">>,
                                 <<"\\TRG", "in", "\\TRG_WIDTH", "">>, <<"\\A", "in", "", "">> >>
    ELSE IF t = "$initstate" THEN << <<"\\Y", "out", "", "">> >>
    ELSE <<>>

(* parameters every cell of the type carries (besides the width parameters named by PortSpec) *)
ReqParams(t) ==
    IF t \in Unary THEN {"\\A_SIGNED"}
    ELSE IF t \in Binary THEN {"\\A_SIGNED", "\\B_SIGNED"}
    ELSE IF t = "$dff" THEN {"\\CLK_POLARITY"}
    ELSE IF t = "$dffe" THEN {"\\CLK_POLARITY", "\\EN_POLARITY"}
    ELSE IF t = "$adff" THEN {"\\CLK_POLARITY", "\\ARST_POLARITY", "\\ARST_VALUE"}
    ELSE IF t = "$meminit_v2" THEN {"\\MEMID", "\\PRIORITY"}
    ELSE IF t = "$memwr_v2" THEN {"\\MEMID", "\\CLK_ENABLE", "\\CLK_POLARITY", "\\PORTID", "\\PRIORITY_MASK"}
    ELSE IF t = "$memrd_v2" THEN {"\\MEMID", "\\CLK_ENABLE", "\\CLK_POLARITY", "\\TRANSPARENCY_MASK", "\\COLLISION_X_MASK",
                                  "\\ARST_VALUE", "\\SRST_VALUE", "\\INIT_VALUE", "\\CE_OVER_SRST"}
    ELSE IF t = "$print" THEN {"\\FORMAT", "\\PRIORITY", "\\TRG_ENABLE", "\\TRG_POLARITY"}
    ELSE IF t = "$check" THEN {"\\FORMAT", "\\PRIORITY", "\\TRG_ENABLE", "\\TRG_POLARITY", "\\FLAVOR"}
    ELSE {}

(* constants whose width is prescribed by another parameter of the same cell *)
SizedParams(t) ==
    IF t = "$adff" THEN {<<"\\ARST_VALUE", "\\WIDTH">>}
    ELSE IF t = "$memrd_v2" THEN {<<"\\ARST_VALUE", "\\WIDTH">>, <<"\\SRST_VALUE", "\\WIDTH">>, <<"\\INIT_VALUE", "\\WIDTH">>}
    ELSE {}

(* ------------------------------------------------------------------------------------------ *)
(* accessors                                                                                   *)
(* ------------------------------------------------------------------------------------------ *)
WireNames(M) == {M.wires[i][1] : i \in DOMAIN M.wires}
MemNames(M)  == {M.mems[i][1] : i \in DOMAIN M.mems}
WireOf(M, n) == M.wires[CHOOSE i \in DOMAIN M.wires : M.wires[i][1] = n]
WidthFn(M)   == [n \in WireNames(M) |-> WireOf(M, n)[2]]
LineFn(M)    == [n \in WireNames(M) |-> WireOf(M, n)[5]]
Ports(M)     == SelectSeq(M.wires, LAMBDA w : w[3] # "")
IsTop(M)     == \E i \in DOMAIN M.attrs : M.attrs[i][1] = "\\top"

ModNames(D)     == {D.mods[i].name : i \in DOMAIN D.mods}
ModOf(D, n)     == D.mods[CHOOSE i \in DOMAIN D.mods : D.mods[i].name = n]
ForeignTypes(D) == {D.foreign[i][1] : i \in DOMAIN D.foreign}
ForeignOf(D, t) == D.foreign[CHOOSE i \in DOMAIN D.foreign : D.foreign[i][1] = t]

HasParam(c, p)  == \E i \in DOMAIN c[3] : c[3][i][1] = p
ParamOf(c, p)   == c[3][CHOOSE i \in DOMAIN c[3] : c[3][i][1] = p][2]
IsNatParam(c, p) == IF HasParam(c, p) THEN (IF ParamOf(c, p)[1] = "int" THEN ParamOf(c, p)[2] >= 0 ELSE FALSE) ELSE FALSE
Factor(c, p)    == IF p = "" THEN 1 ELSE ParamOf(c, p)[2]

(* chunk / sigspec widths; ww = WidthFn(M) *)
CW(ww, c) == IF c[1] = "W" THEN ww[c[2]] ELSE c[4] - c[3] + 1
SW(ww, s) == SumSeq([i \in DOMAIN s |-> CW(ww, s[i])])
Norm(ww, c) == IF c[1] = "W" THEN <<"w", c[2], 0, ww[c[2]] - 1>> ELSE c
(* the individual bits of a sigspec, least significant first: <<wire, index>> or <<digit, -1>> for a constant *)
BitsOf(ww, s) == Flat([i \in DOMAIN s |->
                    LET c == Norm(ww, s[i]) IN
                    [k \in 1..(c[4] - c[3] + 1) |-> IF c[1] = "c" THEN <<c[2][k], -1>> ELSE <<c[2], c[3] + k - 1>>]])
AllWires(s) == \A i \in DOMAIN s : s[i][1] # "c"

(* every sigspec of a module with the line it stands on: << <<sigspec, line>>... >> *)
CellSpecs(M) == Flat([i \in DOMAIN M.cells |-> [k \in DOMAIN M.cells[i][4] |-> <<M.cells[i][4][k][2], M.cells[i][6]>>]])
ProcSpecs(M) == Flat([i \in DOMAIN M.procs |->
                    LET assigns == M.procs[i][2]
                        switches == M.procs[i][3] IN
                    Flat([k \in DOMAIN assigns |-> << <<assigns[k][1], assigns[k][3]>>, <<assigns[k][2], assigns[k][3]>> >>])
                    \o Flat([k \in DOMAIN switches |->
                            LET pats == Flat(switches[k][2]) IN
                            << <<switches[k][1], switches[k][3]>> >> \o [q \in DOMAIN pats |-> <<pats[q], switches[k][3]>>]])])
ConnSpecs(M) == Flat([i \in DOMAIN M.conns |-> << <<M.conns[i][1], M.conns[i][3]>>, <<M.conns[i][2], M.conns[i][3]>> >>])
AllSpecs(M)  == CellSpecs(M) \o ProcSpecs(M) \o ConnSpecs(M)
(* P(sigspec, line) holds of every sigspec of the module (same enumeration as AllSpecs, without building it) *)
ForAllSpecs(M, P(_, _)) ==
    /\ \A i \in DOMAIN M.cells : \A k \in DOMAIN M.cells[i][4] : P(M.cells[i][4][k][2], M.cells[i][6])
    /\ \A i \in DOMAIN M.procs :
          /\ \A a \in DOMAIN M.procs[i][2] : /\ P(M.procs[i][2][a][1], M.procs[i][2][a][3])
                                             /\ P(M.procs[i][2][a][2], M.procs[i][2][a][3])
          /\ \A x \in DOMAIN M.procs[i][3] :
                /\ P(M.procs[i][3][x][1], M.procs[i][3][x][3])
                /\ \A y \in DOMAIN M.procs[i][3][x][2] : \A q \in DOMAIN M.procs[i][3][x][2][y] :
                        P(M.procs[i][3][x][2][y][q], M.procs[i][3][x][3])
    /\ \A i \in DOMAIN M.conns : P(M.conns[i][1], M.conns[i][3]) /\ P(M.conns[i][2], M.conns[i][3])

(* ------------------------------------------------------------------------------------------ *)
(* clauses: each yields OK or a witness                                                        *)
(* ------------------------------------------------------------------------------------------ *)
(* names are unique within a module (wires, memories, cells and processes share one namespace); *)
(* a cell names each port and each parameter once                                              *)
UniqueNames(M) ==
    LET names == Col(M.wires, 1) \o Col(M.mems, 1) \o Col(M.cells, 2) \o Col(M.procs, 1) IN
    IF ~Distinct(names) THEN <<"duplicate_name", FirstDup(names)>>
    ELSE IF \E i \in DOMAIN M.cells : ~Distinct(Col(M.cells[i][4], 1))
         THEN LET i == CHOOSE i \in DOMAIN M.cells : ~Distinct(Col(M.cells[i][4], 1))
              IN <<"port_connected_twice", M.cells[i][2], FirstDup(Col(M.cells[i][4], 1))>>
    ELSE IF \E i \in DOMAIN M.cells : ~Distinct(Col(M.cells[i][3], 1))
         THEN LET i == CHOOSE i \in DOMAIN M.cells : ~Distinct(Col(M.cells[i][3], 1))
              IN <<"parameter_given_twice", M.cells[i][2], FirstDup(Col(M.cells[i][3], 1))>>
    ELSE OK

(* every wire mentioned exists and is declared above its use; every cell is an internal cell of the  *)
(* library, an instance of a module of this document, or one of the foreign instances the design *)
(* asked for; memory cells name a memory of this module                                         *)
RefsExist(D, M) ==
    LET names == WireNames(M)
        lines == LineFn(M)
        BadChunk(c, ln) == IF c[1] = "c" THEN FALSE ELSE IF c[2] \notin names THEN TRUE ELSE lines[c[2]] >= ln
        BadSpec(p) == \E k \in DOMAIN p[1] : BadChunk(p[1][k], p[2])
        GoodSpec(sp, ln) == \A k \in DOMAIN sp : ~BadChunk(sp[k], ln)
        BadType(c) == c[1] \notin KnownCells /\ c[1] \notin ModNames(D) /\ c[1] \notin ForeignTypes(D)
        BadMem(c) == IF c[1] \in MemCells /\ HasParam(c, "\\MEMID")
                     THEN ~(ParamOf(c, "\\MEMID")[1] = "str" /\ ParamOf(c, "\\MEMID")[4] \in MemNames(M))
                     ELSE FALSE
    IN
    IF ~ForAllSpecs(M, GoodSpec)
    THEN LET specs == AllSpecs(M)
             p == specs[CHOOSE i \in DOMAIN specs : BadSpec(specs[i])]
             c == p[1][CHOOSE k \in DOMAIN p[1] : BadChunk(p[1][k], p[2])]
         IN <<IF c[2] \in names THEN "wire_used_above_its_declaration" ELSE "no_such_wire", c[2], p[2]>>
    ELSE IF \E i \in DOMAIN M.cells : BadType(M.cells[i])
    THEN LET c == M.cells[CHOOSE i \in DOMAIN M.cells : BadType(M.cells[i])] IN <<"no_such_cell_type_or_module", c[1], c[2]>>
    ELSE IF \E i \in DOMAIN M.cells : BadMem(M.cells[i])
    THEN LET c == M.cells[CHOOSE i \in DOMAIN M.cells : BadMem(M.cells[i])] IN <<"no_such_memory", c[2]>>
    ELSE OK

(* slices stay within the wire *)
SlicesInBounds(M, ww) ==
    LET BadChunk(c) == IF c[1] = "w" THEN ~(0 <= c[3] /\ c[3] <= c[4] /\ c[4] < ww[c[2]]) ELSE FALSE
        BadSpec(p) == \E k \in DOMAIN p[1] : BadChunk(p[1][k])
        GoodSpec(sp, ln) == \A k \in DOMAIN sp : ~BadChunk(sp[k])
    IN
    IF ~ForAllSpecs(M, GoodSpec)
    THEN LET specs == AllSpecs(M)
             p == specs[CHOOSE i \in DOMAIN specs : BadSpec(specs[i])]
             c == p[1][CHOOSE k \in DOMAIN p[1] : BadChunk(p[1][k])]
         IN <<"slice_out_of_bounds", c[2], c[3], c[4], ww[c[2]], p[2]>>
    ELSE OK

(* both sides of every connection and process assignment, every case pattern and its selector, and *)
(* every port of an internal cell and the width its parameters prescribe, are equally wide        *)
PrimCellWitness(ww, c) ==
    LET spec == PortSpec(c[1])
        wp == ({spec[i][3] : i \in DOMAIN spec} \cup {spec[i][4] : i \in DOMAIN spec}) \ {""}
        conn == c[4]
        BadWidth(i) == \E k \in DOMAIN conn : conn[k][1] = spec[i][1]
                                              /\ SW(ww, conn[k][2]) # Factor(c, spec[i][3]) * Factor(c, spec[i][4])
    IN
    IF \E p \in wp : ~IsNatParam(c, p)
    THEN <<"width_parameter_missing_or_not_a_natural", c[2], CHOOSE p \in wp : ~IsNatParam(c, p)>>
    ELSE IF \E p \in ReqParams(c[1]) : ~HasParam(c, p)
    THEN <<"parameter_missing", c[2], CHOOSE p \in ReqParams(c[1]) : ~HasParam(c, p)>>
    ELSE IF Range(Col(conn, 1)) # Range(Col(spec, 1))
    THEN <<"ports_differ_from_cell_library", c[2], Range(Col(conn, 1)), Range(Col(spec, 1))>>
    ELSE IF \E i \in DOMAIN spec : BadWidth(i)
    THEN LET i == CHOOSE i \in DOMAIN spec : BadWidth(i)
         IN <<"cell_port_width", c[2], spec[i][1], Factor(c, spec[i][3]) * Factor(c, spec[i][4])>>
    ELSE IF \E q \in SizedParams(c[1]) : ParamOf(c, q[1])[1] # "bits" \/ ParamOf(c, q[1])[2] # ParamOf(c, q[2])[2]
    THEN <<"parameter_width", c[2], (CHOOSE q \in SizedParams(c[1]) :
                                     ParamOf(c, q[1])[1] # "bits" \/ ParamOf(c, q[1])[2] # ParamOf(c, q[2])[2])[1]>>
    ELSE OK

WidthsAgree(M, ww) ==
    LET BadConn(x) == SW(ww, x[1]) # SW(ww, x[2])
        assigns == Flat([i \in DOMAIN M.procs |-> M.procs[i][2]])
        switches == Flat([i \in DOMAIN M.procs |-> M.procs[i][3]])
        BadSwitch(s) == \E k \in DOMAIN s[2] : \E q \in DOMAIN s[2][k] : SW(ww, s[2][k][q]) # SW(ww, s[1])
        prims == SelectSeq(M.cells, LAMBDA c : c[1] \in KnownCells)
        BadPrim(c) == PrimCellWitness(ww, c) # OK
    IN
    IF \E i \in DOMAIN M.conns : BadConn(M.conns[i])
    THEN LET x == M.conns[CHOOSE i \in DOMAIN M.conns : BadConn(M.conns[i])]
         IN <<"connect_width", SW(ww, x[1]), SW(ww, x[2]), x[3]>>
    ELSE IF \E i \in DOMAIN assigns : BadConn(assigns[i])
    THEN LET x == assigns[CHOOSE i \in DOMAIN assigns : BadConn(assigns[i])]
         IN <<"assign_width", SW(ww, x[1]), SW(ww, x[2]), x[3]>>
    ELSE IF \E i \in DOMAIN switches : BadSwitch(switches[i])
    THEN <<"case_pattern_width", switches[CHOOSE i \in DOMAIN switches : BadSwitch(switches[i])][3]>>
    ELSE IF \E i \in DOMAIN prims : BadPrim(prims[i])
    THEN PrimCellWitness(ww, prims[CHOOSE i \in DOMAIN prims : BadPrim(prims[i])])
    ELSE OK

(* port indices are unique and dense (counted from 0 or from 1) *)
PortIdsDense(M) ==
    LET ids == Col(Ports(M), 4)
        n == Len(ids) IN
    IF ~Distinct(ids) THEN <<"port_index_used_twice", FirstDup(ids)>>
    ELSE IF n > 0 /\ Range(ids) # 0..(n - 1) /\ Range(ids) # 1..n THEN <<"port_indices_not_dense", ids>>
    ELSE OK

(* a cell instantiating a module of the document connects exactly the ports that module declares, *)
(* equally wide; what an output or bidirectional port is connected to consists of wires only      *)
SubCellWitness(D, ww, c) ==
    LET ports == Ports(ModOf(D, c[1]))
        conn == c[4]
        PortOf(n) == ports[CHOOSE i \in DOMAIN ports : ports[i][1] = n]
    IN
    IF Range(Col(conn, 1)) # Range(Col(ports, 1))
    THEN <<"ports_differ_from_module", c[2], Range(Col(conn, 1)), Range(Col(ports, 1))>>
    ELSE IF \E k \in DOMAIN conn : SW(ww, conn[k][2]) # PortOf(conn[k][1])[2]
    THEN LET k == CHOOSE k \in DOMAIN conn : SW(ww, conn[k][2]) # PortOf(conn[k][1])[2]
         IN <<"submodule_port_width", c[2], conn[k][1], SW(ww, conn[k][2]), PortOf(conn[k][1])[2]>>
    ELSE IF \E k \in DOMAIN conn : PortOf(conn[k][1])[3] # "input" /\ ~AllWires(conn[k][2])
    THEN <<"submodule_output_connected_to_constant", c[2],
           conn[CHOOSE k \in DOMAIN conn : PortOf(conn[k][1])[3] # "input" /\ ~AllWires(conn[k][2])][1]>>
    ELSE IF c[3] # <<>> THEN <<"parameters_on_a_module_without_parameters", c[2]>>
    ELSE OK

SubmoduleCellsMatch(D, M, ww) ==
    LET subs == SelectSeq(M.cells, LAMBDA c : c[1] \notin KnownCells /\ c[1] \in ModNames(D))
    IN
    IF \E i \in DOMAIN subs : SubCellWitness(D, ww, subs[i]) # OK
    THEN SubCellWitness(D, ww, subs[CHOOSE i \in DOMAIN subs : SubCellWitness(D, ww, subs[i]) # OK])
    ELSE OK

(* ---- foreign instances ---- *)
RECURSIVE NatBits(_, _)
NatBits(v, w) == IF w = 0 THEN <<>> ELSE <<IF v % 2 = 1 THEN "1" ELSE "0">> \o NatBits(v \div 2, w - 1)
Flip(bs) == [i \in DOMAIN bs |-> IF bs[i] = "1" THEN "0" ELSE "1"]
IntBits(v, w) == IF v >= 0 THEN NatBits(v, w) ELSE Flip(NatBits((-v) - 1, w))     \* two's complement, LSB first

(* digits bs (LSB first) extended to w digits: with the sign digit for a negative number, with 0 otherwise *)
ExtBits(bs, w, neg) == [i \in 1..w |-> IF i <= Len(bs) THEN bs[i] ELSE IF neg THEN "1" ELSE "0"]

(* the value the design gave (e) is the value the document carries (g).  An integer is written either *)
(* as a plain integer or Verilog-like as a constant of at least 32 bits, signed when negative.     *)
ConstMatches(e, g, flags) ==
    IF e[1] = "int"
    THEN \/ g[1] = "int" /\ g[2] = e[2]
         \/ g[1] = "bits" /\ g[2] >= 32 /\ g[3] = IntBits(e[2], g[2]) /\ (flags /\ e[2] < 0 => g[4] = "signed")
    ELSE IF e[1] = "wint"     \* an integer beyond 32 bits: <<"wint", 0, minimal digits LSB first, "neg" | "">>
    THEN \/ g[1] = "wint" /\ g[3] = e[3] /\ g[4] = e[4]
         \/ g[1] = "bits" /\ g[2] >= 32 /\ g[2] >= Len(e[3]) /\ g[3] = ExtBits(e[3], g[2], e[4] = "neg")
                          /\ (flags /\ e[4] = "neg" => g[4] = "signed")
    ELSE IF e[1] = "bits"
    THEN g[1] = "bits" /\ g[2] = e[2] /\ g[3] = e[3] /\ (flags => g[4] = e[4])
    ELSE g[1] = e[1] /\ g[4] = e[4]

PairsMatch(exp, got, flags) ==
    /\ Distinct(Col(got, 1))
    /\ Range(Col(exp, 1)) = Range(Col(got, 1))
    /\ \A i \in DOMAIN exp : \A k \in DOMAIN got : exp[i][1] = got[k][1] => ConstMatches(exp[i][2], got[k][2], flags)

ForeignCellWitness(D, ww, c) ==
    LET f == ForeignOf(D, c[1])
        conn == c[4]
        PortOf(n) == f[4][CHOOSE i \in DOMAIN f[4] : f[4][i][1] = n]
        \* the back end adds a source location attribute of its own - unless the design gave the instance one
        GivenSrc == \E i \in DOMAIN f[3] : f[3][i][1] = "\\src"
        attrs == IF GivenSrc THEN c[5] ELSE SelectSeq(c[5], LAMBDA a : a[1] # "\\src")
        BadConn(k) == LET p == PortOf(conn[k][1]) IN
                      \/ SW(ww, conn[k][2]) # p[3]
                      \/ p[4] # <<>> /\ BitsOf(ww, conn[k][2]) # BitsOf(ww, p[4])
                      \/ p[2] # "i" /\ ~AllWires(conn[k][2])
    IN
    IF ~PairsMatch(f[2], c[3], TRUE) THEN <<"instance_parameters", c[2], c[3], f[2]>>
    ELSE IF ~PairsMatch(f[3], attrs, FALSE) THEN <<"instance_attributes", c[2], attrs, f[3]>>
    ELSE IF Range(Col(conn, 1)) # Range(Col(f[4], 1)) THEN <<"instance_ports", c[2], Range(Col(conn, 1)), Range(Col(f[4], 1))>>
    ELSE IF \E k \in DOMAIN conn : BadConn(k)
    THEN LET k == CHOOSE k \in DOMAIN conn : BadConn(k) IN <<"instance_port_connection", c[2], conn[k][1], conn[k][2], PortOf(conn[k][1])>>
    ELSE OK

IsForeign(D, c) == c[1] \notin KnownCells /\ c[1] \notin ModNames(D) /\ c[1] \in ForeignTypes(D)

ForeignInstanceFaithful(D, M, ww) ==
    LET fs == SelectSeq(M.cells, LAMBDA c : IsForeign(D, c))
    IN
    IF \E i \in DOMAIN fs : ForeignCellWitness(D, ww, fs[i]) # OK
    THEN ForeignCellWitness(D, ww, fs[CHOOSE i \in DOMAIN fs : ForeignCellWitness(D, ww, fs[i]) # OK])
    ELSE OK

(* ---- drivers ---- *)
(* A driver is <<source, wire, lo, hi>>: the source drives bits lo..hi of the wire.  Sources: each chunk  *)
(* of the left side of a connect, each chunk connected to an output of a cell (internal cell: per the  *)
(* library; instance of a module: its output and bidirectional ports; foreign instance: "o" and "io"), *)
(* and each process -- one source however many of its branches assign the bit.                    *)
OutPorts(D, c) ==
    IF c[1] \in KnownCells THEN {PortSpec(c[1])[i][1] : i \in {i \in DOMAIN PortSpec(c[1]) : PortSpec(c[1])[i][2] = "out"}}
    ELSE IF c[1] \in ModNames(D)
    THEN LET ps == Ports(ModOf(D, c[1])) IN {ps[i][1] : i \in {i \in DOMAIN ps : ps[i][3] # "input"}}
    ELSE LET ps == ForeignOf(D, c[1])[4] IN {ps[i][1] : i \in {i \in DOMAIN ps : ps[i][2] # "i"}}

Drivers(D, M, ww) ==
    Flat([i \in DOMAIN M.conns |->
            [k \in DOMAIN M.conns[i][1] |-> <<<<"connect", i, k, 0>>>> \o Tail(Norm(ww, M.conns[i][1][k]))]])
    \o Flat([i \in DOMAIN M.procs |->
            Flat([a \in DOMAIN M.procs[i][2] |->
                    [k \in DOMAIN M.procs[i][2][a][1] |-> <<<<"process", i, 0, 0>>>> \o Tail(Norm(ww, M.procs[i][2][a][1][k]))]])])
    \o Flat([i \in DOMAIN M.cells |->
            LET c == M.cells[i]
                outs == OutPorts(D, c) IN
            Flat([p \in DOMAIN c[4] |->
                    IF c[4][p][1] \in outs
                    THEN [k \in DOMAIN c[4][p][2] |-> <<<<"cell", i, p, k>>>> \o Tail(Norm(ww, c[4][p][2][k]))]
                    ELSE <<>>])])

DrivenSpecsAreWires(D, M) ==
    /\ \A i \in DOMAIN M.conns : AllWires(M.conns[i][1])
    /\ \A i \in DOMAIN M.procs : \A a \in DOMAIN M.procs[i][2] : AllWires(M.procs[i][2][a][1])
    /\ \A i \in DOMAIN M.cells : \A p \in DOMAIN M.cells[i][4] :
            M.cells[i][4][p][1] \in OutPorts(D, M.cells[i]) => AllWires(M.cells[i][4][p][2])

(* every bit of every wire that is not a bidirectional port has exactly one driver; for the bits of an *)
(* input port that driver is the outside of the module, so nothing inside may drive them            *)
ExactlyOneDriver(D, M, ww) ==
    LET drv == Drivers(D, M, ww)
        Of(n) == SelectSeq(drv, LAMBDA d : d[2] = n)
        Count(dn, b) == Cardinality({dn[i][1] : i \in {i \in DOMAIN dn : dn[i][3] <= b /\ b <= dn[i][4]}})
        Bad(w) == /\ w[3] # "inout"
                  /\ LET dn == Of(w[1]) IN
                     \E b \in 0..(w[2] - 1) : Count(dn, b) + (IF w[3] = "input" THEN 1 ELSE 0) # 1
    IN
    IF ~DrivenSpecsAreWires(D, M) THEN <<"constant_on_a_driven_side">>
    ELSE IF \E i \in DOMAIN M.wires : Bad(M.wires[i])
    THEN LET w == M.wires[CHOOSE i \in DOMAIN M.wires : Bad(M.wires[i])]
             dn == Of(w[1])
             b == CHOOSE b \in 0..(w[2] - 1) : Count(dn, b) + (IF w[3] = "input" THEN 1 ELSE 0) # 1
         IN <<IF w[3] = "input" THEN "input_driven_inside" ELSE IF Count(dn, b) = 0 THEN "undriven_bit" ELSE "several_drivers",
              w[1], b, {dn[i][1] : i \in {i \in DOMAIN dn : dn[i][3] <= b /\ b <= dn[i][4]}}>>
    ELSE OK

(* A module with no cell, no process and no connection of non-zero width.  The property only demands that   *)
(* empty submodules never break well-formedness, not that they are left out, so this is NOT part of the      *)
(* verdict (ModuleWitness); it is kept as a named observation.                                               *)
NoEmptyModules(M, ww) ==
    IF ~IsTop(M) /\ M.cells = <<>> /\ M.procs = <<>> /\ (\A i \in DOMAIN M.conns : SW(ww, M.conns[i][1]) = 0)
    THEN <<"empty_module">> ELSE OK

(* first failing clause of a module (later clauses rely on earlier ones: evaluated lazily), or OK *)
ModuleWitness(D, M) ==
    LET c1 == UniqueNames(M) IN IF c1 # OK THEN <<"UniqueNames", c1>> ELSE
    LET c2 == RefsExist(D, M) IN IF c2 # OK THEN <<"RefsExist", c2>> ELSE
    LET ww == WidthFn(M) IN
    LET c3 == SlicesInBounds(M, ww) IN IF c3 # OK THEN <<"SlicesInBounds", c3>> ELSE
    LET c4 == WidthsAgree(M, ww) IN IF c4 # OK THEN <<"WidthsAgree", c4>> ELSE
    LET c5 == PortIdsDense(M) IN IF c5 # OK THEN <<"PortIdsDense", c5>> ELSE
    LET c6 == SubmoduleCellsMatch(D, M, ww) IN IF c6 # OK THEN <<"SubmoduleCellsMatch", c6>> ELSE
    LET c7 == ForeignInstanceFaithful(D, M, ww) IN IF c7 # OK THEN <<"ForeignInstanceFaithful", c7>> ELSE
    LET c8 == ExactlyOneDriver(D, M, ww) IN IF c8 # OK THEN <<"ExactlyOneDriver", c8>> ELSE OK

(* document level: module names are unique, and every foreign instance the design asked for occurs *)
(* exactly once                                                                                  *)
DocWitness(D) ==
    LET allcells == Flat([i \in DOMAIN D.mods |-> D.mods[i].cells])
        Occ(t) == Len(SelectSeq(allcells, LAMBDA c : c[1] = t))
    IN
    IF ~Distinct([i \in DOMAIN D.mods |-> D.mods[i].name])
    THEN <<"UniqueNames", <<"duplicate_module">>>>
    ELSE IF ~Distinct(Col(D.foreign, 1)) THEN <<"ForeignInstanceFaithful", <<"harness_error_types_not_distinct">>>>
    ELSE IF \E t \in ForeignTypes(D) : Occ(t) # 1
    THEN <<"ForeignInstanceFaithful", <<"instance_count", CHOOSE t \in ForeignTypes(D) : Occ(t) # 1>>>>
    ELSE OK

BitsCounted(M) == SumSeq([i \in DOMAIN M.wires |-> IF M.wires[i][3] = "inout" THEN 0 ELSE M.wires[i][2]])

(* ------------------------------------------------------------------------------------------ *)
Init == /\ tid \in 1..Len(Docs) /\ mi = 0 /\ acc = <<0, 0>> /\ verdict = ""

CheckDoc ==
    /\ verdict = "" /\ mi = 0
    /\ LET w == DocWitness(Docs[tid]) IN
       IF w # OK
       THEN /\ verdict' = "REJ" /\ PrintT(<<"REJ", tid, "", w[1], w[2]>>) /\ UNCHANGED <<tid, mi, acc>>
       ELSE /\ mi' = 1 /\ UNCHANGED <<tid, acc, verdict>>

CheckModule ==
    /\ verdict = "" /\ mi >= 1 /\ mi <= Len(Docs[tid].mods)
    /\ LET D == Docs[tid]
           M == D.mods[mi]
           f == ModuleWitness(D, M)
       IN IF f # OK
          THEN /\ verdict' = "REJ" /\ PrintT(<<"REJ", tid, M.name, f[1], f[2]>>) /\ UNCHANGED <<tid, mi, acc>>
          ELSE /\ mi' = mi + 1
               /\ acc' = <<acc[1] + BitsCounted(M), acc[2] + Len(M.cells)>>
               /\ UNCHANGED <<tid, verdict>>

Finish ==
    /\ verdict = "" /\ mi = Len(Docs[tid].mods) + 1
    /\ verdict' = "ACC" /\ PrintT(<<"ACC", tid, Len(Docs[tid].mods), acc[1], acc[2]>>)
    /\ UNCHANGED <<tid, mi, acc>>

Next == CheckDoc \/ CheckModule \/ Finish
Spec == Init /\ [][Next]_vars

(* sanity of the validator itself *)
TypeOK == verdict \in {"", "ACC", "REJ"} /\ mi \in 0..(Len(Docs[tid].mods) + 1)
=============================================================================
