------------------------------ MODULE MC_AmSim ------------------------------
EXTENDS AmSim
S1 == << <<"set", "a", 1>>, <<"get", "x">>, <<"get", "y">>, <<"get", "xy">>, <<"set", "b", 1>>, <<"get", "x">>, <<"get", "y">>, <<"get", "xy">>,
         <<"tick">>, <<"get", "r">>, <<"get", "q">>, <<"get", "rq">>, <<"get", "mem">>, <<"time">>, <<"set", "a", 0>>, <<"get", "y">>, <<"tick">>, <<"get", "r">>,
         <<"get", "mem">>, <<"delay", 7>>, <<"time">>, <<"get", "r">>, <<"get", "q">>, <<"get", "rq">>, <<"get", "mem">>, <<"get", "y">> >>
S2 == << <<"delay", 3>>, <<"set", "b", 1>>, <<"get", "y">>, <<"delay", 12>>, <<"time">>, <<"get", "r">>,
         <<"set", "a", 1>>, <<"set", "b", 0>>, <<"tick">>, <<"time">>, <<"get", "r">>, <<"tick">>, <<"get", "r">>, <<"get", "q">>, <<"get", "rq">>, <<"get", "mem">>, <<"get", "x">> >>
S3 == << <<"tick">>, <<"tick">>, <<"set", "a", 1>>, <<"delay", 5>>, <<"get", "r">>, <<"delay", 5>>, <<"get", "r">>,
         <<"time">>, <<"set", "b", 1>>, <<"tick">>, <<"get", "r">>, <<"get", "y">> >>
(* two testbenches: the first writes right after the edge, the second reads at the same instant and must see it *)
T1 == << <<"set", "a", 1>>, <<"tick">>, <<"get", "r">>, <<"set", "b", 1>>, <<"tick">>, <<"get", "q">>, <<"get", "mem">>, <<"set", "a", 0>>,
         <<"delay", 10>>, <<"set", "b", 0>>, <<"get", "y">> >>
T2 == << <<"tick">>, <<"get", "y">>, <<"get", "x">>, <<"get", "xy">>, <<"tick">>, <<"get", "y">>, <<"set", "a", 1>>, <<"get", "xy">>, <<"delay", 10>>, <<"get", "y">>,
         <<"time">>, <<"get", "q">>, <<"get", "rq">> >>
(* waiting for changes / edges of signals that cannot glitch (x: one comb stage from the inputs; r, q: registers) *)
T3 == << <<"changed", "r">>, <<"get", "q">>, <<"time">>, <<"edge", "q", 1>>, <<"time">>, <<"get", "r">>, <<"set", "b", 1>>,
         <<"changed", "q">>, <<"get", "mem">> >>
T4 == << <<"set", "a", 1>>, <<"delay", 8>>, <<"set", "a", 0>>, <<"tick">>, <<"set", "a", 1>>, <<"delay", 13>>, <<"set", "b", 1>>,
         <<"tick">>, <<"tick">>, <<"get", "rq">> >>
T5 == << <<"changed", "x">>, <<"time">>, <<"get", "y">>, <<"edge", "x", 0>>, <<"time">>, <<"changed", "x">>, <<"time">> >>
(* a wake-up chain inside one instant: T6 and T8 wake on the same delay, T6 writes, which wakes T7 (added between *)
(* them): the order must be T6, T7, T8, so T8 sees T7's write                                                    *)
T6 == << <<"delay", 7>>, <<"set", "a", 1>>, <<"get", "x">> >>
T7 == << <<"changed", "x">>, <<"set", "b", 1>>, <<"get", "y">> >>
T8 == << <<"delay", 7>>, <<"get", "y">>, <<"get", "x">>, <<"get", "xy">>, <<"tick">>, <<"get", "rq">> >>
(* tick().repeat(n) and tick().until(condition) *)
T9 == << <<"set", "a", 1>>, <<"repeat", 2>>, <<"time">>, <<"get", "rq">>, <<"until", "q">>, <<"time">>, <<"get", "r">>, <<"set", "b", 1>>,
         <<"until", "y">>, <<"time">>, <<"repeat", 1>>, <<"get", "mem">> >>
T10 == << <<"until", "r">>, <<"time">>, <<"set", "a", 1>>, <<"repeat", 3>>, <<"get", "q">>, <<"time">> >>
AllScriptSets == {<<S1>>, <<S2>>, <<S3>>, <<T1, T2>>, <<T2, T1>>, <<T3, T4>>, <<T4, T3>>, <<T4, T5>>, <<T5, T4, T3>>, <<T6, T7, T8>>, <<T8, T7, T6>>,
                  <<T9>>, <<T10, T9>>, <<T9, T4>>}
QuickScriptSets == {<<S1>>, <<S2>>, <<T1, T2>>, <<T2, T1>>, <<T3, T4>>, <<T4, T5>>, <<T6, T7, T8>>, <<T8, T7, T6>>, <<T9>>, <<T10, T9>>}
(* sets in which a testbench added LATER wakes one added earlier: the woken one runs in the next pass *)
ReorderSets == {<<T8, T7, T6>>, <<T5, T4, T3>>, <<T4, T3>>, <<T2, T1>>}
OneScriptSet == {<<S1>>}
TwoTbSets == {<<T1, T2>>}
AllFns == 0..15
FewFns == {6, 9, 8}
CombFns == {1, 6, 8, 9, 10, 14}
SyncFnsAll == {1, 5, 6, 8, 9, 10, 12, 14}
SyncFnsFew == {6, 10, 12, 9}
=============================================================================
