----------------------------- MODULE FmtTiming -----------------------------
(* Property C20, timing part: when a synchronous Print emits and when an Assert / Assume stops the    *)
(* simulation.                                                                                        *)
(*                                                                                                    *)
(* One clock domain.  The design has inputs a, b (1 bit), s (2 bits) driven by the testbench before    *)
(* each active edge, and four registers: cyc (4 bits, +1 every edge, the edge label), r (r <= a), t     *)
(* (toggles at edges where a = 1) and q (2 bits, +1 modulo 4 at edges where b = 1).  Conditions of     *)
(* Assert / Assume / If may be wider than one bit (q, s, s as a signed value, a masked value): they    *)
(* are "zero" iff the WHOLE value is zero.  A program from the catalogue is a tree of If/Elif/Else and       *)
(* Switch/Case blocks with Print and Assert/Assume statements at the leaves, all in the sync domain.   *)
(*                                                                                                    *)
(* Contract (guide, "Assertions", "Debug printing", "Control flow"):                                   *)
(*   - a statement is *active* at an edge iff every enclosing block is selected by the values the      *)
(*     signals have just before the edge (If/Elif: first true condition, else Else; Switch: first      *)
(*     matching Case, else Default);                                                                   *)
(*   - a Print emits once at exactly the edges at which it is active;                                  *)
(*   - the simulation stops at the first edge at which some Assert/Assume is active with a zero        *)
(*     condition, and never otherwise.  Which of the Prints active at that very edge still emit is not *)
(*     specified (atstop = the ones that may).                                                         *)
(* Every state is a test: the input history `ins`, the expected emissions `emitted` (<<edge, id>> in    *)
(* edge order), and `stop` (<<>> or <<edge, {<<id, kind>>} that fail there>>).  The harness replays the  *)
(* maximal histories on the real simulator and compares literally.                                     *)
EXTENDS Integers, Sequences, FiniteSets, TLC

CONSTANTS MaxLen,        \* input histories of length <= MaxLen (one less for programs reading 3 input bits)
          ProgIds,       \* subset of DOMAIN Programs to explore
          TMutant        \* "" | "lastmatch" | "late" | "postedge" | "ignoreen" : seeded errors in the machine (not in the theorems)

(* ------------------------------ expressions ------------------------------ *)
Sig(n)    == [op |-> "sig", n |-> n]                 \* a b s r t cyc
Not(x)    == [op |-> "not", x |-> x]                 \* 1-bit operands
And(x, y) == [op |-> "and", x |-> x, y |-> y]
Or(x, y)  == [op |-> "or", x |-> x, y |-> y]
Eq(x, k)  == [op |-> "eq", x |-> x, k |-> k]
Bit(x, i) == [op |-> "bit", x |-> x, i |-> i]
K(v)      == [op |-> "const", v |-> v]               \* 1-bit constant
Mask(x, k) == [op |-> "mask", x |-> x, k |-> k]      \* x & k, k a constant of the width of x (multi-bit result)
AsSigned(x, w) == [op |-> "signed", x |-> x, w |-> w]   \* the w-bit value x read as a signed number

RECURSIVE Eval(_, _)
Eval(e, env) ==
    CASE e.op = "sig" -> env[e.n]
      [] e.op = "const" -> e.v
      [] e.op = "not" -> 1 - Eval(e.x, env)
      [] e.op = "and" -> IF Eval(e.x, env) = 1 /\ Eval(e.y, env) = 1 THEN 1 ELSE 0
      [] e.op = "or" -> IF Eval(e.x, env) = 1 \/ Eval(e.y, env) = 1 THEN 1 ELSE 0
      [] e.op = "eq" -> IF Eval(e.x, env) = e.k THEN 1 ELSE 0
      [] e.op = "bit" -> (Eval(e.x, env) \div (2^e.i)) % 2
      [] e.op = "mask" -> LET v == Eval(e.x, env) IN
                          (((v % 2) * (e.k % 2)) + 2 * (((v \div 2) % 2) * ((e.k \div 2) % 2)))
                          + (4 * (((v \div 4) % 2) * ((e.k \div 4) % 2)) + 8 * (((v \div 8) % 2) * ((e.k \div 8) % 2)))
      [] e.op = "signed" -> LET v == Eval(e.x, env) IN IF v >= 2^(e.w - 1) THEN v - 2^e.w ELSE v

(* ------------------------------ statements ------------------------------ *)
PrintS(id)      == [k |-> "print", kind |-> "", id |-> id, cond |-> K(1)]
AssertS(id, e)  == [k |-> "prop", kind |-> "assert", id |-> id, cond |-> e]
AssumeS(id, e)  == [k |-> "prop", kind |-> "assume", id |-> id, cond |-> e]
Br(e, body)    == [c |-> e, body |-> body]
If(brs, els)   == [k |-> "if", br |-> brs, els |-> els]          \* brs: If, Elif, Elif...; els: Else body (maybe <<>>)
Case(pats, body) == [pats |-> pats, dflt |-> FALSE, body |-> body]   \* patterns: sequences of "0" "1" "-", MSB first
Default(body)  == [pats |-> <<>>, dflt |-> TRUE, body |-> body]
Switch(e, w, cases) == [k |-> "switch", test |-> e, w |-> w, cases |-> cases]

BitOf(v, i) == (v \div (2^i)) % 2
MatchPat(v, w, pat) == \A j \in 1..w : pat[j] = "-" \/ pat[j] = (IF BitOf(v, w - j) = 1 THEN "1" ELSE "0")
MatchCase(v, w, cs) == cs.dflt \/ \E j \in 1..Len(cs.pats) : MatchPat(v, w, cs.pats[j])

(* the catalogue *)
Programs == <<
  [wrap |-> <<>>, sub |-> FALSE, reg |-> FALSE, uses |-> {},         body |-> <<PrintS(1)>>],
  [wrap |-> <<>>, sub |-> FALSE, reg |-> FALSE, uses |-> {"a"},      body |-> <<If(<<Br(Sig("a"), <<PrintS(1)>>)>>, <<>>)>>],
  [wrap |-> <<>>, sub |-> FALSE, reg |-> FALSE, uses |-> {"a", "b"}, body |-> <<If(<<Br(Sig("a"), <<If(<<Br(Sig("b"), <<PrintS(1)>>)>>, <<>>), PrintS(2)>>)>>, <<PrintS(3)>>)>>],
  [wrap |-> <<>>, sub |-> FALSE, reg |-> FALSE, uses |-> {"a", "b"}, body |-> <<If(<<Br(Sig("a"), <<PrintS(1)>>), Br(Sig("b"), <<PrintS(2)>>)>>, <<PrintS(3)>>), PrintS(4)>>],
  [wrap |-> <<>>, sub |-> FALSE, reg |-> FALSE, uses |-> {"s"},      body |-> <<Switch(Sig("s"), 2, <<Case(<< <<"0","0">> >>, <<PrintS(1)>>),
                                                        Case(<< <<"0","1">>, <<"1","0">> >>, <<PrintS(2)>>),
                                                        Default(<<PrintS(3)>>)>>)>>],
  [wrap |-> <<>>, sub |-> FALSE, reg |-> FALSE, uses |-> {"s"},      body |-> <<Switch(Sig("s"), 2, <<Case(<< <<"1","-">> >>, <<PrintS(1)>>),
                                                        Case(<< <<"1","1">> >>, <<PrintS(2)>>),
                                                        Case(<< <<"-","0">> >>, <<PrintS(3)>>)>>),
                                   If(<<Br(Sig("s"), <<PrintS(4)>>)>>, <<>>)>>],
  [wrap |-> <<>>, sub |-> FALSE, reg |-> FALSE, uses |-> {"a"},      body |-> <<If(<<Br(Sig("r"), <<PrintS(1)>>)>>, <<>>), If(<<Br(Sig("t"), <<PrintS(2)>>)>>, <<PrintS(3)>>)>>],
  [wrap |-> <<>>, sub |-> FALSE, reg |-> FALSE, uses |-> {"a"},      body |-> <<AssertS(1, Sig("a")), PrintS(2)>>],
  [wrap |-> <<>>, sub |-> FALSE, reg |-> FALSE, uses |-> {"a", "b"}, body |-> <<PrintS(3), If(<<Br(Sig("b"), <<AssertS(1, Sig("a")), PrintS(2)>>)>>, <<>>)>>],
  [wrap |-> <<>>, sub |-> FALSE, reg |-> FALSE, uses |-> {"a"},      body |-> <<PrintS(1), If(<<Br(Bit(Sig("cyc"), 1), <<AssumeS(2, Not(And(Sig("a"), Sig("r"))))>>)>>, <<>>)>>],
  [wrap |-> <<>>, sub |-> FALSE, reg |-> FALSE, uses |-> {"s", "b"}, body |-> <<Switch(Sig("s"), 2, <<Case(<< <<"1","-">> >>, <<If(<<Br(Sig("b"), <<AssertS(1, Eq(Sig("s"), 2))>>)>>, <<>>), PrintS(2)>>),
                                                        Default(<<PrintS(3)>>)>>)>>],
  [wrap |-> <<>>, sub |-> FALSE, reg |-> FALSE, uses |-> {"a", "b"}, body |-> <<AssertS(1, Sig("a")), AssumeS(2, Sig("b")), PrintS(3)>>],
  [wrap |-> <<>>, sub |-> FALSE, reg |-> FALSE, uses |-> {"a"},      body |-> <<If(<<Br(Eq(Sig("cyc"), 2), <<AssertS(1, Sig("a"))>>)>>, <<>>), If(<<Br(Sig("a"), <<PrintS(2)>>)>>, <<>>)>>],
  [wrap |-> <<>>, sub |-> FALSE, reg |-> FALSE, uses |-> {"a", "s"}, body |-> <<If(<<Br(Sig("a"), <<Switch(Sig("s"), 2, <<Case(<< <<"0","1">> >>, <<PrintS(1)>>),
                                                                               Case(<< <<"-","1">> >>, <<AssumeS(2, Sig("t"))>>),
                                                                               Default(<<PrintS(3)>>)>>)>>),
                                        Br(Eq(Sig("s"), 3), <<PrintS(4)>>)>>,
                                      <<AssertS(5, Or(Not(Sig("r")), Bit(Sig("s"), 1))), PrintS(6)>>)>>],
  [wrap |-> <<>>, sub |-> FALSE, reg |-> FALSE, uses |-> {"a", "b"}, body |-> <<If(<<Br(K(0), <<PrintS(1), AssertS(2, K(0))>>), Br(And(Sig("a"), Not(Sig("b"))), <<PrintS(3)>>)>>, <<>>),
                                   If(<<Br(Sig("t"), <<AssertS(4, Or(Sig("a"), Sig("b")))>>)>>, <<>>)>>],
  (* conditions wider than one bit: zero iff the whole value is zero *)
  [wrap |-> <<>>, sub |-> FALSE, reg |-> FALSE, uses |-> {"s"},      body |-> <<AssertS(1, Sig("s")), PrintS(2)>>],
  [wrap |-> <<>>, sub |-> FALSE, reg |-> FALSE, uses |-> {"b"},      body |-> <<PrintS(1), If(<<Br(Bit(Sig("cyc"), 1), <<AssumeS(2, Sig("q"))>>)>>, <<PrintS(3)>>)>>],
  [wrap |-> <<>>, sub |-> FALSE, reg |-> FALSE, uses |-> {"s", "b"}, body |-> <<If(<<Br(Sig("b"), <<AssertS(1, AsSigned(Sig("s"), 2)), PrintS(2)>>)>>, <<AssumeS(3, Mask(Sig("s"), 2))>>)>>],
  [wrap |-> <<>>, sub |-> FALSE, reg |-> FALSE, uses |-> {"s", "b"}, body |-> <<Switch(Sig("q"), 2, <<Case(<< <<"0","0">> >>, <<PrintS(1)>>),
                                                        Case(<< <<"-","1">> >>, <<AssumeS(2, Sig("s")), PrintS(3)>>),
                                                        Default(<<AssertS(4, Mask(Sig("cyc"), 6)), PrintS(5)>>)>>)>>],
  [wrap |-> <<>>, sub |-> FALSE, reg |-> FALSE, uses |-> {"a", "b"}, body |-> <<If(<<Br(Sig("q"), <<AssertS(1, AsSigned(Mask(Sig("q"), 2), 2))>>), Br(Sig("a"), <<PrintS(2)>>)>>, <<AssumeS(3, Mask(Sig("cyc"), 12))>>)>>],
  (* activity controlled from outside the module: the body sits in a module of its own (the registers stay outside),  *)
  (* wrapped innermost-first by the modifiers in `wrap`: "en1" = EnableInserter(e), "en2" = EnableInserter(f),        *)
  (* "rst" = ResetInserter(x), "rename" = the whole design moved to a second clock domain by DomainRenamer while the   *)
  (* original clock keeps toggling (edges = edges of the renamed domain's clock).  sub: the statements are in a        *)
  (* submodule of the wrapped module; reg: the wrapped module also assigns an unrelated register in the same domain.   *)
  [wrap |-> <<"en1">>, sub |-> FALSE, reg |-> FALSE, uses |-> {"e", "a"}, body |-> <<PrintS(1), If(<<Br(Sig("a"), <<PrintS(2)>>)>>, <<>>)>>],
  [wrap |-> <<"en1">>, sub |-> FALSE, reg |-> FALSE, uses |-> {"e", "a"}, body |-> <<AssertS(1, Sig("a"))>>],
  [wrap |-> <<"en1">>, sub |-> FALSE, reg |-> FALSE, uses |-> {"e", "s"}, body |-> <<PrintS(1), AssumeS(2, Sig("s"))>>],
  [wrap |-> <<"en1">>, sub |-> FALSE, reg |-> TRUE,  uses |-> {"e", "a"}, body |-> <<PrintS(1), If(<<Br(Sig("a"), <<PrintS(2)>>)>>, <<>>)>>],
  [wrap |-> <<"en1">>, sub |-> FALSE, reg |-> TRUE,  uses |-> {"e", "a"}, body |-> <<PrintS(1), AssertS(2, Sig("a"))>>],
  [wrap |-> <<"en1">>, sub |-> TRUE,  reg |-> FALSE, uses |-> {"e", "a"}, body |-> <<PrintS(1), AssertS(2, Sig("a"))>>],
  [wrap |-> <<"en1">>, sub |-> TRUE,  reg |-> TRUE,  uses |-> {"e", "a"}, body |-> <<If(<<Br(Sig("a"), <<PrintS(1)>>)>>, <<>>), AssumeS(2, Or(Sig("a"), Not(Sig("r"))))>>],
  [wrap |-> <<"en1", "en2">>, sub |-> FALSE, reg |-> FALSE, uses |-> {"e", "f", "a"}, body |-> <<PrintS(1), AssertS(2, Sig("a"))>>],
  [wrap |-> <<"en1", "en2">>, sub |-> TRUE,  reg |-> TRUE,  uses |-> {"e", "f"}, body |-> <<PrintS(1)>>],
  [wrap |-> <<"rst">>, sub |-> FALSE, reg |-> TRUE,  uses |-> {"x", "a"}, body |-> <<PrintS(1), AssertS(2, Sig("a"))>>],
  [wrap |-> <<"rst", "en1">>, sub |-> FALSE, reg |-> FALSE, uses |-> {"x", "e", "a"}, body |-> <<PrintS(1), AssertS(2, Sig("a"))>>],
  [wrap |-> <<"rename">>, sub |-> FALSE, reg |-> FALSE, uses |-> {"a", "b"}, body |-> <<PrintS(1), If(<<Br(Sig("a"), <<PrintS(2)>>)>>, <<>>), AssertS(3, Or(Sig("a"), Sig("b")))>>],
  [wrap |-> <<"en1", "rename">>, sub |-> TRUE, reg |-> TRUE, uses |-> {"e", "a"}, body |-> <<PrintS(1), AssertS(2, Sig("a"))>>]
>>

ASSUME PrintT(<<"PROGRAMS", Programs>>)

VARIABLES p, n, regs, ins, hist, emitted, stop, atstop
vars == <<p, n, regs, ins, hist, emitted, stop, atstop>>

InBits(q) == Cardinality(Programs[q].uses) + (IF "s" \in Programs[q].uses THEN 1 ELSE 0)
Limit(q) == IF InBits(q) >= 3 THEN MaxLen - 1 ELSE MaxLen
(* every enclosing EnableInserter must have its enable high for anything in the wrapped module to be active; a        *)
(* ResetInserter and a DomainRenamer do not change which statements are active                                         *)
Gate(q, env) == \A i \in 1..Len(Programs[q].wrap) :
                   /\ Programs[q].wrap[i] = "en1" => env.e = 1
                   /\ Programs[q].wrap[i] = "en2" => env.f = 1

(* ------------------------------ the machine: an interpreter ------------------------------ *)
RECURSIVE ExecSeq(_, _), ExecStmt(_, _)
ExecSeq(ss, env) == IF Len(ss) = 0 THEN <<>> ELSE ExecStmt(Head(ss), env) \o ExecSeq(Tail(ss), env)
Pick(S) == IF TMutant = "lastmatch" THEN CHOOSE i \in S : \A j \in S : j <= i ELSE CHOOSE i \in S : \A j \in S : i <= j
ExecStmt(st, env) ==
    CASE st.k = "print" -> << [ev |-> "print", id |-> st.id, kind |-> ""] >>
      [] st.k = "prop" -> IF Eval(st.cond, env) = 0 THEN << [ev |-> "fail", id |-> st.id, kind |-> st.kind] >> ELSE <<>>
      [] st.k = "if" ->
            LET T == {i \in 1..Len(st.br) : Eval(st.br[i].c, env) # 0} IN
            IF T = {} THEN ExecSeq(st.els, env) ELSE ExecSeq(st.br[Pick(T)].body, env)
      [] st.k = "switch" ->
            LET v == Eval(st.test, env)
                T == {i \in 1..Len(st.cases) : MatchCase(v, st.w, st.cases[i])} IN
            IF T = {} THEN <<>> ELSE ExecSeq(st.cases[Pick(T)].body, env)

Env6(a, b, s, e, f, x, rg) == [a |-> a, b |-> b, s |-> s, e |-> e, f |-> f, x |-> x, r |-> rg.r, t |-> rg.t, q |-> rg.q, cyc |-> rg.cyc]
NextRegs(a, b, rg) == [r |-> a, t |-> IF a = 1 THEN 1 - rg.t ELSE rg.t, q |-> IF b = 1 THEN (rg.q + 1) % 4 ELSE rg.q,
                       cyc |-> (rg.cyc + 1) % 16]

Init == /\ p \in ProgIds /\ n = 0 /\ regs = [r |-> 0, t |-> 0, q |-> 0, cyc |-> 0]
        /\ ins = <<>> /\ hist = <<>> /\ emitted = <<>> /\ stop = <<>> /\ atstop = {}

(* the events of one edge: evaluated once per step (bound by \E so that TLC does not re-evaluate the interpreter) *)
Tick(a, b, s, e, f, x) ==
    /\ stop = <<>> /\ n < Limit(p)
    /\ LET env0 == Env6(a, b, s, e, f, x, regs)
           env == IF TMutant = "postedge" THEN [env0 EXCEPT !.r = NextRegs(a, b, regs).r, !.t = NextRegs(a, b, regs).t, !.q = NextRegs(a, b, regs).q] ELSE env0
           at == IF TMutant = "late" THEN regs.cyc + 1 ELSE regs.cyc
       IN \E evs \in {IF Gate(p, env) \/ TMutant = "ignoreen" THEN ExecSeq(Programs[p].body, env) ELSE <<>>} :
          \E prints \in {SelectSeq(evs, LAMBDA ev : ev.ev = "print")}, fails \in {SelectSeq(evs, LAMBDA ev : ev.ev = "fail")} :
          /\ IF Len(fails) = 0
             THEN /\ emitted' = emitted \o [i \in 1..Len(prints) |-> <<regs.cyc, prints[i].id>>]
                  /\ UNCHANGED <<stop, atstop>>
             ELSE /\ stop' = <<at, {<<fails[i].id, fails[i].kind>> : i \in 1..Len(fails)}>>
                  /\ atstop' = {prints[i].id : i \in 1..Len(prints)}
                  /\ UNCHANGED emitted
          /\ hist' = Append(hist, env0)
    /\ ins' = Append(ins, <<a, b, s, e, f, x>>)
    /\ regs' = NextRegs(a, b, regs)
    /\ n' = n + 1
    /\ UNCHANGED p

Dom(q, nm, top) == IF nm \in Programs[q].uses THEN 0..top ELSE {0}
Next == \E a \in Dom(p, "a", 1), b \in Dom(p, "b", 1), s \in Dom(p, "s", 3),
             e \in Dom(p, "e", 1), f \in Dom(p, "f", 1), x \in Dom(p, "x", 1) : Tick(a, b, s, e, f, x)
Spec == Init /\ [][Next]_vars

(* ------------------------------ theorems: the contract, declaratively ------------------------------ *)
(* the set of statements active in an environment: a statement is active iff all enclosing blocks are selected *)
RECURSIVE ActiveSeq(_, _), ActiveStmt(_, _)
ActiveSeq(ss, env) == UNION {ActiveStmt(ss[i], env) : i \in 1..Len(ss)}
ActiveStmt(st, env) ==
    CASE st.k = "print" -> {st}
      [] st.k = "prop" -> {st}
      [] st.k = "if" ->
            UNION ({ActiveSeq(st.br[i].body, env) : i \in {i \in 1..Len(st.br) :
                        /\ Eval(st.br[i].c, env) # 0
                        /\ \A j \in 1..(i - 1) : Eval(st.br[j].c, env) = 0}}
                   \cup (IF \A j \in 1..Len(st.br) : Eval(st.br[j].c, env) = 0 THEN {ActiveSeq(st.els, env)} ELSE {}))
      [] st.k = "switch" ->
            LET v == Eval(st.test, env) IN
            UNION {ActiveSeq(st.cases[i].body, env) : i \in {i \in 1..Len(st.cases) :
                        /\ MatchCase(v, st.w, st.cases[i])
                        /\ \A j \in 1..(i - 1) : ~MatchCase(v, st.w, st.cases[j])}}

Active(e) == IF Gate(p, hist[e]) THEN ActiveSeq(Programs[p].body, hist[e]) ELSE {}
Failing(e) == {st \in Active(e) : st.k = "prop" /\ Eval(st.cond, hist[e]) = 0}
FirstFail == IF \E e \in 1..Len(hist) : Failing(e) # {}
             THEN CHOOSE e \in 1..Len(hist) : Failing(e) # {} /\ \A f \in 1..(e - 1) : Failing(f) = {}
             ELSE 0
(* hist[e] is the environment just before the edge labelled e - 1 *)
EmitExact ==
    LET last == IF FirstFail = 0 THEN Len(hist) ELSE FirstFail - 1 IN
    {emitted[i] : i \in 1..Len(emitted)} = UNION {{<<e - 1, st.id>> : st \in {x \in Active(e) : x.k = "print"}} : e \in 1..last}
EmitOnce == \A i, j \in 1..Len(emitted) : i < j => emitted[i] # emitted[j] /\ emitted[i][1] <= emitted[j][1]
StopExact ==
    IF FirstFail = 0 THEN stop = <<>>
    ELSE stop = <<FirstFail - 1, {<<st.id, st.kind>> : st \in Failing(FirstFail)}>>
StopsForGood == stop # <<>> => Len(hist) = FirstFail
AtStop == stop # <<>> => atstop = {st.id : st \in {x \in Active(FirstFail) : x.k = "print"}}
=============================================================================
