------------------------------ MODULE ReproTrace ------------------------------
(* Trace validation for property C09: histories of Observe events recorded from the real amaranth           *)
(* (harness/props/c09.py) are run through the monitor of Repro.  A batch of histories is read from the JSON  *)
(* file named by the environment variable TRACE_FILE; every history is validated in its own behaviour       *)
(* (tid chosen in Init).  The verdict is total: <<"ACC", tid, n>> or <<"REJ", tid, step, clause>>.           *)
(*                                                                                                          *)
(* history = [events |-> << [design |-> "name", kind |-> "rtlil" | "sim_trace" | "init_state" |              *)
(*                           "post_reset_state" | "plan_files" | "plan_digest" | "archive_bytes" |            *)
(*                           "extract_listing", proc |-> n, seed |-> PYTHONHASHSEED of that interpreter,      *)
(*                           phase |-> "first" | ..., digest |-> small integer], ... >>]                      *)
(* clause  = "<kind>_differs_in_same_interpreter" | "<kind>_differs_across_interpreters" (same hash seed) |  *)
(*           "<kind>_differs_across_hash_seeds" | "reset_does_not_restore_initial_state" |                    *)
(*           "extract_differs_from_planned_files"      (kept short: TLC wraps printed values at 80 columns)   *)
EXTENDS Naturals, Sequences, FiniteSets, Json, IOUtils, TLC, TLCExt

Batch == JsonDeserialize(IOEnv.TRACE_FILE)
Traces == Batch.traces

VARIABLES tid, i, hist, first, verdict
vars == <<tid, i, hist, first, verdict>>

(* the producer part of Repro is not used here: its constants are instantiated with empty sets *)
R == INSTANCE Repro WITH Designs <- {}, Kinds <- {}, Procs <- {}, SeedOf <- <<>>, Phases <- {}, Digests <- {},
                         MaxObs <- 0, Mutant <- "", truth <- <<>>, alarm <- verdict

T == Traces[tid]

Init == /\ tid \in 1..Len(Traces) /\ i = 1 /\ hist = <<>> /\ first = R!Empty /\ verdict = ""

Step ==
    /\ verdict = "" /\ i <= Len(T.events)
    /\ LET e == T.events[i]
           c == R!Check(first, e)
       IN IF c # ""
          THEN /\ verdict' = c /\ PrintT(<<"REJ", tid, i, c>>)
               /\ UNCHANGED <<tid, i, hist, first>>
          ELSE /\ hist' = Append(hist, e) /\ first' = R!Update(first, e) /\ i' = i + 1
               /\ UNCHANGED <<tid, verdict>>

Finish ==
    /\ verdict = "" /\ i = Len(T.events) + 1
    /\ verdict' = "ACC" /\ PrintT(<<"ACC", tid, Len(T.events)>>)
    /\ UNCHANGED <<tid, i, hist, first>>

Next == Step \/ Finish
Spec == Init /\ [][Next]_vars

(* every accepted prefix of every real history satisfies the properties of Repro (evaluated by TLC at each   *)
(* position; quadratic in the length of the history, so the harness keeps histories short)                   *)
AcceptedIsReproducible == R!SameKeySameDigest /\ R!ResetRestoresInit /\ R!ExtractMatchesPlan
=============================================================================
