---------------------------- MODULE MC_AmLhsCases ----------------------------
EXTENDS AmLhsCases
WrittenQ == {0, 1, 2, 5, 7, 12, 255, -1, -3, -8, -200}
(* mutant: a slice write that also clears the bit above the slice must break Frame / WriteBackIdentity *)
==============================================================================
