--------------------------------- MODULE Crc ---------------------------------
(* The Williams / Rocksoft(tm) parameter model of a CRC ("A Painless Guide to CRC Error        *)
(* Detection Algorithms", crc_v3.txt; the parameterisation used by the reveng catalogue and    *)
(* documented for amaranth.lib.crc.Algorithm), written bit-serially, and the cycle-level       *)
(* contract of amaranth.lib.crc.Processor (docs/stdlib/crc.rst, property C16).                 *)
(*                                                                                             *)
(* REPRESENTATION.  TLC integers are 32 bits, CRC registers are up to 82 bits: every CRC value,*)
(* polynomial, register and data word is a BIT VECTOR = a sequence over {0,1} written          *)
(* MOST-SIGNIFICANT BIT FIRST (v[1] is the MSB, v[Len(v)] the LSB; <<1,0,1,1>> = 0b1011).       *)
(* For a register, v[1] is the coefficient of the highest-order term x^(w-1).                  *)
(*                                                                                             *)
(* A parameter set is a record                                                                  *)
(*   P = [w |-> crc_width, poly |-> bits(w) (without the implicit x^w term), init |-> bits(w), *)
(*        refin |-> BOOLEAN, refout |-> BOOLEAN, xorout |-> bits(w)]                            *)
(*                                                                                             *)
(* Modes (selected by INIT/NEXT in the configuration):                                          *)
(*   Init/Next        the Processor machine over all small parameter sets, with the theorems    *)
(*                    CrcIsFold, OwnCrcMatches, OtherTrailerNoMatch, ... as invariants       *)
(*   GenInit/GenNext  prints, for every small parameter set and data width, the CRC of every    *)
(*                    word sequence (compared literally with Parameters.compute by the harness) *)
EXTENDS Naturals, Sequences, SequencesExt, FiniteSets, TLC

CONSTANTS Widths,       \* crc widths explored by the machine / generator
          DataWidths,   \* data word widths explored
          MaxWords,     \* history bound: at most MaxWords words since the last start ...
          MaxBits,      \* ... and at most MaxBits data bits since the last start
          Mutant        \* "" or the name of a seeded specification error (non-vacuity)

------------------------------------------------------------------------------
(* ==== bit vectors ==== *)
Bit == {0, 1}
BitVecs(n) == [1..n -> Bit]
Xor(u, v) == [i \in 1..Len(u) |-> (u[i] + v[i]) % 2]
Rev(u) == [i \in 1..Len(u) |-> u[Len(u) + 1 - i]]
Zeros(n) == [i \in 1..n |-> 0]
SubVec(u, a, b) == [i \in 1..(b - a + 1) |-> u[a + i - 1]]      \* u[a..b]

RECURSIVE Pow2(_)
Pow2(n) == IF n = 0 THEN 1 ELSE 2 * Pow2(n - 1)
(* small values only (printing / enumeration): n < 2^Len *)
ToBits(n, len) == [i \in 1..len |-> (n \div Pow2(len - i)) % 2]
RECURSIVE ToIntFrom(_, _, _)
ToIntFrom(u, i, acc) == IF i > Len(u) THEN acc ELSE ToIntFrom(u, i + 1, 2 * acc + u[i])
ToInt(u) == ToIntFrom(u, 1, 0)

------------------------------------------------------------------------------
(* ==== the Williams model ==== *)
(* One message bit enters the register: the register is multiplied by x, the bit is added at   *)
(* the x^w position, and the result is reduced modulo x^w + poly.                               *)
StepBit(P, reg, b) ==
    LET sh == Append(Tail(reg), 0)                       \* register * x  (the x^w coefficient reg[1] drops out)
    IN IF reg[1] = b THEN sh ELSE Xor(sh, P.poly)        \* x^w coefficient reg[1] + b = 1: subtract the generator

(* The bits of a sequence enter the register in index order (first transmitted first).          *)
(* FoldLeft(op, base, <<b1, .., bn>>) = op(.. op(op(base, b1), b2) .., bn)   (SequencesExt)          *)
AbsorbBits(P, reg, bits) == FoldLeft(LAMBDA r, b : StepBit(P, r, b), reg, bits)

(* A data word is processed most-significant bit first, or least-significant bit first when    *)
(* reflect_input is set.  WireBits = the word's bits in processing (= transmission) order.      *)
WireBits(P, word) == IF P.refin THEN Rev(word) ELSE word
AbsorbWord(P, reg, word) ==
    IF Mutant = "refin_ignored" THEN AbsorbBits(P, reg, word)
    ELSE AbsorbBits(P, reg, WireBits(P, word))

AbsorbWords(P, reg, words) == FoldLeft(LAMBDA r, word : AbsorbWord(P, r, word), reg, words)

(* The register as presented at the output: reflected over the whole width if reflect_output.  *)
RegOut(P, reg) == IF P.refout THEN Rev(reg) ELSE reg
(* The CRC value: output reflection first, then the output XOR. *)
Finalise(P, reg) ==
    IF Mutant = "xor_skipped" THEN RegOut(P, reg)
    ELSE Xor(RegOut(P, reg), P.xorout)

ComputeWords(P, words) == Finalise(P, AbsorbWords(P, P.init, words))

------------------------------------------------------------------------------
(* ==== codewords: the CRC as a trailer ==== *)
(* Transmission order of a CRC value: the coefficient of the highest-order register term goes  *)
(* first.  Without output reflection that is the MSB of the CRC value, with output reflection  *)
(* its LSB.  (Algorithm docstring: the reflected 16-bit output 0x4E4C is transmitted as the     *)
(* octets 0x4C, 0x4E, each least significant bit first.)                                        *)
TxBits(P, crc) == IF P.refout /\ Mutant # "tx_msb_always" THEN Rev(crc) ELSE crc
(* The same bit stream cut into data words of width dw (dw divides w): each word carries its   *)
(* bits in the order in which data words are processed.                                         *)
TxWords(P, dw, crc) ==
    LET s == TxBits(P, crc)
    IN [j \in 1..(P.w \div dw) |-> WireBits(P, SubVec(s, (j - 1) * dw + 1, j * dw))]

(* Residue: the register content (presented like the output, without the XOR) left after an    *)
(* error-free codeword = any message followed by its own CRC in transmission order.  Defined    *)
(* here from the empty message; OwnCrcMatches shows it is the same for every message.          *)
Residue(P) == RegOut(P, AbsorbBits(P, P.init, TxBits(P, Finalise(P, P.init))))

(* x does not divide the generator polynomial x^w + poly: only then is absorbing w bits an     *)
(* injective map, i.e. only then can "any other trailer does not match" hold at all.           *)
PolyOdd(P) == P.poly[P.w] = 1

------------------------------------------------------------------------------
(* ==== the Processor contract ==== *)
(* Outputs are functions of the register.  `crc` shows the CRC of the words absorbed since the *)
(* last start; match_detected tells whether the register holds the residue.                    *)
CrcOut(P, reg) == Finalise(P, reg)
MatchOut(P, reg) == RegOut(P, reg) = Residue(P)

(* One clock cycle with inputs start, valid (BOOLEAN) and data (bits(dw)).                      *)
(*   start /\ valid : a new computation is started with the current data word                   *)
(*   start /\ ~valid: the register is re-initialised                                            *)
(*   ~start /\ valid: the data word is added to the CRC                                         *)
NextReg(P, reg, start, valid, data) ==
    LET src == IF start THEN P.init ELSE reg
    IN IF valid THEN (IF Mutant = "start_drops_word" /\ start THEN src ELSE AbsorbWord(P, src, data))
       ELSE src
(* ghost: the words absorbed since the last start *)
NextHist(hist, start, valid, data) ==
    LET base == IF start THEN <<>> ELSE hist
    IN IF valid THEN Append(base, data) ELSE base

(* does the word sequence ws end with the CRC of everything before it, in transmission order?  *)
WholeWords(P, dw) == P.w % dw = 0
EndsWithOwnCrc(P, dw, ws) ==
    LET k == P.w \div dw
        n == Len(ws)
    IN /\ n >= k
       /\ SubVec(ws, n - k + 1, n) = TxWords(P, dw, ComputeWords(P, SubVec(ws, 1, n - k)))

AllParams(w) == [w : {w}, poly : BitVecs(w), init : BitVecs(w), refin : BOOLEAN, refout : BOOLEAN,
                 xorout : BitVecs(w)]
(* NextReg reads only w, poly, init and refin: reflect_output and xor_output shape the outputs,   *)
(* not the register.  The machine therefore carries one representative per (w, poly, init, refin)*)
(* (refout = FALSE, xorout = 0) and every theorem quantifies over all output variants of it.     *)
RegParams(w) == [w : {w}, poly : BitVecs(w), init : BitVecs(w), refin : BOOLEAN, refout : {FALSE},
                 xorout : {Zeros(w)}]
OutVariants(Q) == {[Q EXCEPT !.refout = o, !.xorout = x] : o \in BOOLEAN, x \in BitVecs(Q.w)}

VARIABLES P, dw, reg, started, ws
vars == <<P, dw, reg, started, ws>>

(* Power-on: initial_crc is documented as the "initial value of CRC register at reset", so a     *)
(* Processor out of reset is in the state that `start` establishes (started = TRUE throughout;   *)
(* the variable only marks "already printed" in the generator mode below).                       *)
Init == /\ \E w \in Widths : P \in RegParams(w)
        /\ dw \in DataWidths
        /\ reg = P.init
        /\ started = TRUE
        /\ ws = <<>>

Cycle(start, valid, data) ==
    /\ valid \/ data = Zeros(dw)          \* data is not looked at without valid: one representative
    /\ reg' = NextReg(P, reg, start, valid, data)
    /\ started' = (started \/ start)
    /\ ws' = IF started \/ start THEN NextHist(ws, start, valid, data) ELSE <<>>
    /\ UNCHANGED <<P, dw>>

Next == \E start \in BOOLEAN, valid \in BOOLEAN, data \in BitVecs(dw) : Cycle(start, valid, data)
Spec == Init /\ [][Next]_vars

MaxLen(d) == IF MaxBits \div d < MaxWords THEN MaxBits \div d ELSE MaxWords
Constr == Len(ws) <= MaxLen(dw)

(* ---- theorems (invariants of the machine) ---- *)
(* The register holds the fold of the words accepted since the last start, whatever idle cycles  *)
(* and restarts came before (so crc, one cycle after each valid word, is their Williams CRC:     *)
(* ComputeWords(Po, ws) = Finalise(Po, AbsorbWords(Po, Po.init, ws)), and AbsorbWords does not     *)
(* read refout / xorout).                                                                        *)
CrcIsFold == started => reg = AbsorbWords(P, P.init, ws)
(* The same through the definitions of the outputs: for the representative at every state, for   *)
(* every output variant at the shortest histories.                                               *)
CrcIsCompute ==
    started => /\ CrcOut(P, reg) = ComputeWords(P, ws)
               /\ Len(ws) <= 1 => \A Po \in OutVariants(P) : CrcOut(Po, reg) = ComputeWords(Po, ws)
(* the words since start are just a bit stream *)
RECURSIVE Flatten(_, _, _)
Flatten(Q, seq, i) == IF i > Len(seq) THEN <<>> ELSE WireBits(Q, seq[i]) \o Flatten(Q, seq, i + 1)
RegOfBitStream == started => reg = AbsorbBits(P, P.init, Flatten(P, ws, 1))

(* rp = the register after the message part ws[1..n-k]; the trailer is ws[n-k+1..n] *)
Codeword(Po, rp) ==
    LET k == Po.w \div dw
        n == Len(ws)
    IN SubVec(ws, n - k + 1, n) = TxWords(Po, dw, Finalise(Po, rp))
MsgReg == LET k == P.w \div dw
              n == Len(ws)
          IN AbsorbWords(P, P.init, SubVec(ws, 1, n - k))
CodewordCase == started /\ WholeWords(P, dw) /\ Len(ws) >= P.w \div dw
(* Residue of every parameter set in range, evaluated once (a constant): Match(Po) = MatchOut(Po, reg) *)
ResidueTable == [Q \in UNION {AllParams(w) : w \in Widths} |-> Residue(Q)]
Match(Po) == RegOut(Po, reg) = ResidueTable[Po]
(* a message followed by its own CRC in transmission order leaves the residue: match_detected;  *)
(* in particular the residue does not depend on the message                                      *)
OwnCrcMatches ==
    CodewordCase => LET rp == MsgReg IN \A Po \in OutVariants(P) : Codeword(Po, rp) => Match(Po)
(* ... and the same message followed by any other trailer does not (x must not divide the        *)
(* generator polynomial: with an even polynomial distinct trailers necessarily collide)          *)
OtherTrailerNoMatch ==
    (CodewordCase /\ PolyOdd(P)) =>
        LET rp == MsgReg IN \A Po \in OutVariants(P) : Match(Po) => Codeword(Po, rp)
(* the definition-level statement, for the representative *)
OwnCrcMatchesDef == (started /\ WholeWords(P, dw) /\ EndsWithOwnCrc(P, dw, ws)) => MatchOut(P, reg)

------------------------------------------------------------------------------
(* ==== generator of expected CRCs (spec -> code) ==== *)
(* For one (w, poly, init, refin, data width) and each output variant: the CRC (as an integer,  *)
(* widths are small here) of every word sequence of length 0..MaxLen(dw), listed per length in   *)
(* lexicographic order (first word most significant, words as integers).                         *)
(* registers after all word sequences of length n+1 from those of length n *)
NextLevel(Q, d, prev) ==
    LET m == Pow2(d)
    IN [j \in 1..(Len(prev) * m) |-> AbsorbWord(Q, prev[((j - 1) \div m) + 1], ToBits((j - 1) % m, d))]
Levels(Q, d) == FoldLeft(LAMBDA acc, n : Append(acc, NextLevel(Q, d, acc[Len(acc)])),
                         << <<Q.init>> >>, [n \in 1..MaxLen(d) |-> n])

(* The generator reuses the machine's variables: (P, dw) = the case, started = "printed". *)
GenInit == /\ \E w \in Widths : P \in RegParams(w)
           /\ dw \in DataWidths
           /\ reg = P.init
           /\ started = FALSE
           /\ ws = <<>>
GenNext == /\ ~started
           /\ started' = TRUE
           /\ UNCHANGED <<P, dw, reg, ws>>
           /\ LET lv == Levels(P, dw)
              IN \A Po \in OutVariants(P) :
                    PrintT(ToString(<<777, Po.w, ToInt(Po.poly), ToInt(Po.init), IF Po.refin THEN 1 ELSE 0,
                                      IF Po.refout THEN 1 ELSE 0, ToInt(Po.xorout), dw, ToInt(Residue(Po)),
                                      [n \in 1..Len(lv) |->
                                          [j \in 1..Len(lv[n]) |-> ToInt(Finalise(Po, lv[n][j]))]]>>))
=============================================================================
