-------------------------------- MODULE Rtlil --------------------------------
(* Semantics of the RTLIL subset emitted by amaranth.back.rtlil (Yosys manual, "RTLIL cell        *)
(* library" and "RTLIL text representation"): fine-grained word-level cells, combinational         *)
(* processes (assign + nested switch/case, first matching case, later assignment wins),            *)
(* connections and $dff/$adff registers, over a FLATTENED netlist given as data.                   *)
(*   bit reference r: 0 = constant 0, 1 = constant 1, r >= 2 = net id (index into w)               *)
(*   node  [k |-> "cell", t, A, B, S, Y, as, bs]   as/bs: A_SIGNED/B_SIGNED; widths = Len of lists  *)
(*         [k |-> "proc", items]   items: sequence of <<"a", lhs bits, rhs bits>> |                  *)
(*                                 <<"s", sel bits, cases>>, case = [pats, items], pats = sequence  *)
(*                                 of <<mask, val>> pairs (empty sequence with dflt = default)       *)
(*         [k |-> "conn", l, r]                                                                    *)
(*         [k |-> "memrd", m, A, Y]   asynchronous read port of memory m                            *)
(* Operand extension: binary cells extend both operands to a common width, signed iff both         *)
(* *_SIGNED are set; results are truncated to Y_WIDTH.  All values are exact integers.             *)
EXTENDS AmBits

BitVal(w, r) == IF r = 0 THEN 0 ELSE IF r = 1 THEN 1 ELSE w[r]
RECURSIVE UValN(_, _, _)
UValN(w, bs, n) == IF n = 0 THEN 0 ELSE UValN(w, bs, n - 1) + BitVal(w, bs[n]) * Pow2(n - 1)
UVal(w, bs) == UValN(w, bs, Len(bs))
SVal(w, bs, sg) == IF sg /\ Len(bs) > 0 THEN FromPat(UVal(w, bs), Signed(Len(bs))) ELSE UVal(w, bs)

RECURSIVE SetBitsN(_, _, _, _)
SetBitsN(w, ys, val, n) ==      \* assign bit i-1 of the integer val to net ys[i], i = 1..n
    IF n = 0 THEN w
    ELSE LET w1 == SetBitsN(w, ys, val, n - 1) IN
         IF ys[n] >= 2 THEN [w1 EXCEPT ![ys[n]] = Bit(val, n - 1)] ELSE w1
SetBits(w, ys, val) == SetBitsN(w, ys, val, Len(ys))

B2N(b) == IF b THEN 1 ELSE 0
CellValue(c, w) ==
    LET both == c.as = 1 /\ c.bs = 1
        a  == SVal(w, c.A, IF c.t \in {"$not", "$neg", "$pos", "$sshr", "$shift", "$shl", "$shr"} THEN c.as = 1 ELSE both)
        b  == IF c.t \in {"$shl", "$shr", "$sshr", "$shift"} THEN UVal(w, c.B) ELSE SVal(w, c.B, both)
        yw == Len(c.Y) IN
    CASE c.t = "$not" -> -a - 1
      [] c.t = "$neg" -> -a
      [] c.t = "$pos" -> a
      [] c.t = "$reduce_and" -> B2N(UVal(w, c.A) = Pow2(Len(c.A)) - 1)
      [] c.t \in {"$reduce_or", "$reduce_bool"} -> B2N(UVal(w, c.A) # 0)
      [] c.t = "$reduce_xor" -> PopCount(UVal(w, c.A), Len(c.A)) % 2
      [] c.t = "$add" -> a + b
      [] c.t = "$sub" -> a - b
      [] c.t = "$mul" -> a * b
      [] c.t = "$divfloor" -> IF b = 0 THEN 0 ELSE FloorDiv(a, b)     \* x in Yosys; amaranth masks it with a $mux
      [] c.t = "$modfloor" -> IF b = 0 THEN 0 ELSE FloorMod(a, b)
      [] c.t = "$and" -> AndPat(a, b, yw)
      [] c.t = "$or"  -> OrPat(a, b, yw)
      [] c.t = "$xor" -> XorPat(a, b, yw)
      [] c.t = "$eq" -> B2N(a = b)
      [] c.t = "$ne" -> B2N(a # b)
      [] c.t = "$lt" -> B2N(a < b)
      [] c.t = "$le" -> B2N(a <= b)
      [] c.t = "$gt" -> B2N(a > b)
      [] c.t = "$ge" -> B2N(a >= b)
      [] c.t = "$shl" -> IF b >= 30 THEN 0 ELSE a * Pow2(b)
      [] c.t \in {"$shr", "$sshr", "$shift"} -> IF b >= 30 THEN (IF a < 0 THEN -1 ELSE 0) ELSE a \div Pow2(b)
      [] c.t = "$mux" -> IF BitVal(w, c.S[1]) = 1 THEN UVal(w, c.B) ELSE UVal(w, c.A)

(* ---- processes ---- *)
PatHit(p, x, n) == AndPat(x, p[1], n) = p[2]          \* p = <<mask, val>>, n = width of the selector
RECURSIVE RunItems(_, _, _, _), FirstCase(_, _, _, _, _)
RunItems(items, i, w, acc) ==        \* acc: nets assigned so far (later assignments win); reads come from w
    IF i > Len(items) THEN acc
    ELSE LET it == items[i] IN
         IF it[1] = "a"
         THEN RunItems(items, i + 1, w, SetBits(acc, it[2], UVal(w, it[3])))
         ELSE RunItems(items, i + 1, w, FirstCase(it[3], 1, <<UVal(w, it[2]), Len(it[2])>>, w, acc))
FirstCase(cases, j, x, w, acc) ==
    IF j > Len(cases) THEN acc
    ELSE LET cs == cases[j] IN
         IF cs.dflt = 1 \/ \E q \in 1..Len(cs.pats) : PatHit(cs.pats[q], x[1], x[2])
         THEN RunItems(cs.items, 1, w, acc)
         ELSE FirstCase(cases, j + 1, x, w, acc)

(* ---- memories ($meminit_v2 / $memrd_v2 / $memwr_v2) ---- *)
(* memv: sequence (one entry per memory) of sequences of row patterns; address a is row a + 1.          *)
(* Reads beyond the last row are undefined in RTLIL (the harness never addresses them): read as 0.     *)
RowOf(memv, m, a) == IF a < Len(memv[m]) THEN memv[m][a + 1] ELSE 0
MergeBits(old, d, en, W) == FromBits([i \in 0..(W - 1) |-> IF Bit(en, i) = 1 THEN Bit(d, i) ELSE Bit(old, i)], W)

EvalNode(nd, w, memv) ==
    CASE nd.k = "cell" -> SetBits(w, nd.Y, CellValue(nd, w))
      [] nd.k = "proc" -> RunItems(nd.items, 1, w, w)
      [] nd.k = "conn" -> SetBits(w, nd.l, UVal(w, nd.r))
      [] nd.k = "memrd" -> SetBits(w, nd.Y, RowOf(memv, nd.m, UVal(w, nd.A)))      \* asynchronous read port

RECURSIVE SettleN(_, _, _, _)
SettleN(nodes, n, w, memv) == IF n = 0 THEN w ELSE EvalNode(nodes[n], SettleN(nodes, n - 1, w, memv), memv)
Settle(nodes, w, memv) == SettleN(nodes, Len(nodes), w, memv)
(* the order in which the harness listed the nodes is not trusted: the result must be a solution of *)
(* all node equations (unique for an acyclic netlist)                                               *)
Consistent(nodes, w, memv) == \A n \in 1..Len(nodes) : EvalNode(nodes[n], w, memv) = w

(* write port p = [m, A, D, EN, CLK, pol]: at its active edge, with the values before the event, the enabled *)
(* bits of the addressed row are replaced; an address beyond the last row changes nothing                     *)
PortEdge(p, wOld, wMid) == BitVal(wOld, p.CLK) # p.pol /\ BitVal(wMid, p.CLK) = p.pol
RECURSIVE ApplyWrites(_, _, _, _, _)
ApplyWrites(wrs, n, wOld, wMid, memv) ==
    IF n = 0 THEN memv
    ELSE LET m1 == ApplyWrites(wrs, n - 1, wOld, wMid, memv)
             p == wrs[n]
             a == UVal(wOld, p.A) IN
         IF PortEdge(p, wOld, wMid) /\ a < Len(m1[p.m])
         THEN [m1 EXCEPT ![p.m][a + 1] = MergeBits(@, UVal(wOld, p.D), UVal(wOld, p.EN), Len(p.D))]
         ELSE m1
(* synchronous read port p = [m, A, Y, EN, CLK, pol, trans]: when enabled at its active edge it captures the  *)
(* addressed row as it was before the event, patched with the data of the write ports in its transparency set *)
(* that write the same address at the same event                                                               *)
RECURSIVE Patch(_, _, _, _, _, _, _)
Patch(row, a, trans, n, wrs, wOld, wMid) ==
    IF n = 0 THEN row
    ELSE LET r1 == Patch(row, a, trans, n - 1, wrs, wOld, wMid)
             q == wrs[trans[n]] IN
         IF PortEdge(q, wOld, wMid) /\ UVal(wOld, q.A) = a
         THEN MergeBits(r1, UVal(wOld, q.D), UVal(wOld, q.EN), Len(q.D)) ELSE r1
RECURSIVE ApplyReads(_, _, _, _, _, _, _)
ApplyReads(rds, n, wrs, wOld, wMid, memv, w) ==
    IF n = 0 THEN w
    ELSE LET w1 == ApplyReads(rds, n - 1, wrs, wOld, wMid, memv, w)
             p == rds[n]
             a == UVal(wOld, p.A) IN
         IF PortEdge(p, wOld, wMid) /\ BitVal(wOld, p.EN) = 1
         THEN SetBits(w1, p.Y, Patch(RowOf(memv, p.m, a), a, p.trans, Len(p.trans), wrs, wOld, wMid))
         ELSE w1

(* ---- registers ---- *)
(* ff = [D, Q, CLK, pol, ARST, arpol, arval]; ARST = 0 means no asynchronous reset ($dff)           *)
FfNext(ff, wOld, wMid) ==        \* wOld: settled values before the event, wMid: inputs applied, registers unchanged
    LET arst == ff.ARST >= 2 /\ BitVal(wMid, ff.ARST) = ff.arpol
        edge == BitVal(wOld, ff.CLK) # ff.pol /\ BitVal(wMid, ff.CLK) = ff.pol IN
    IF arst THEN ff.arval ELSE IF edge THEN UVal(wOld, ff.D) ELSE UVal(wOld, ff.Q)
RECURSIVE ApplyFfs(_, _, _, _, _)
ApplyFfs(ffs, n, wOld, wMid, w) ==
    IF n = 0 THEN w ELSE ApplyFfs(ffs, n - 1, wOld, wMid, SetBits(w, ffs[n].Q, FfNext(ffs[n], wOld, wMid)))
=============================================================================
