------------------------------ MODULE FifoImpl ------------------------------
(* Implementation-structured models of SyncFIFO and SyncFIFOBuffered: registers and memory as  *)
(* documented (circular buffer with produce/consume pointers and a level counter; the buffered *)
(* variant reads the memory synchronously into an output register).  Ghost variables q, win,   *)
(* rout carry the abstract queue; TLC checks that every reachable state, under every strobe    *)
(* sequence, presents outputs the contract in FifoObs allows (refinement of Fifo).             *)
EXTENDS FifoObs, SequencesExt, TLC

CONSTANTS Depth, Data, Variant, MaxHist, Mutant   \* Mutant: "" or the name of a seeded design error
ASSUME Variant \in {"sync", "buffered"}

VARIABLES level,    \* sync: level register; buffered: inner level
          produce, consume, mem,
          rrdy, rdata,           \* buffered: output register valid / data
          q, wait, win, rout     \* ghosts
vars == <<level, produce, consume, mem, rrdy, rdata, q, wait, win, rout>>

D0 == CHOOSE d \in Data : \A e \in Data : d <= e
Inner == IF Variant = "buffered" THEN Depth - 1 ELSE Depth   \* memory depth
Incr(p, m) == IF p = m - 1 THEN 0 ELSE p + 1

(* ---- outputs as functions of the registers ---- *)
WRdy == IF Depth = 0 THEN FALSE
        ELSE IF Variant = "sync" THEN
              (IF Mutant = "wrdy_at_full" THEN level <= Depth ELSE level # Depth)
        ELSE IF Depth = 1 THEN level = 0
        ELSE level # Inner
RRdy == IF Depth = 0 THEN FALSE
        ELSE IF Variant = "sync" THEN level # 0
        ELSE IF Depth = 1 THEN level = 1
        ELSE rrdy
RData == IF Depth = 0 THEN D0
         ELSE IF Variant = "sync" THEN mem[consume]
         ELSE rdata
Level == IF Depth = 0 THEN 0
         ELSE IF Variant = "sync" \/ Depth = 1 THEN level
         ELSE level + B2N(rrdy)
Out == [w_rdy |-> WRdy, r_rdy |-> RRdy, r_data |-> RData, level |-> Level, r_level |-> Level, w_level |-> Level]

Init == /\ level = 0 /\ produce = 0 /\ consume = 0
        /\ mem = [i \in 0..(IF Inner > 0 THEN Inner - 1 ELSE 0) |-> D0]
        /\ rrdy = FALSE /\ rdata = D0
        /\ q = <<>> /\ wait = 0 /\ win = <<>> /\ rout = <<>>

Ghost(w_en, w_data, r_en) ==
    /\ q' = QNext(q, Out, w_en, w_data, r_en)
    /\ win' = IF MaxHist > 0 /\ DoW(Out, w_en) THEN Append(win, w_data) ELSE win
    /\ rout' = IF MaxHist > 0 /\ DoR(Out, r_en) THEN Append(rout, RData) ELSE rout

CycleSync(w_en, w_data, r_en) ==
    LET dw == w_en /\ WRdy
        dr == r_en /\ RRdy IN
    /\ Variant = "sync" /\ Depth > 0
    /\ mem' = IF dw THEN [mem EXCEPT ![produce] = w_data] ELSE mem
    /\ produce' = IF dw THEN Incr(produce, Depth) ELSE produce
    /\ consume' = IF dr THEN Incr(consume, Depth) ELSE consume
    /\ level' = IF dw /\ ~dr THEN level + 1 ELSE IF dr /\ ~dw THEN level - 1 ELSE level
    /\ UNCHANGED <<rrdy, rdata>>

CycleBuf1(w_en, w_data, r_en) ==
    LET dw == w_en /\ WRdy
        dr == r_en /\ RRdy IN
    /\ Variant = "buffered" /\ Depth = 1
    /\ rdata' = IF dw THEN w_data ELSE rdata
    /\ level' = IF dr THEN 0 ELSE IF dw THEN 1 ELSE level
    /\ UNCHANGED <<produce, consume, mem, rrdy>>

CycleBuf(w_en, w_data, r_en) ==
    LET dw  == w_en /\ WRdy
        dir == (level # 0) /\ (~rrdy \/ r_en)      \* move an entry from the memory to the output register
    IN
    /\ Variant = "buffered" /\ Depth >= 2
    /\ mem' = IF dw THEN [mem EXCEPT ![produce] = w_data] ELSE mem
    /\ produce' = IF dw THEN Incr(produce, Inner) ELSE produce
    /\ consume' = IF dir THEN Incr(consume, Inner) ELSE consume
    /\ rdata' = IF dir THEN mem[consume] ELSE rdata        \* synchronous read port: pre-edge row
    /\ level' = IF dw /\ ~dir THEN level + 1 ELSE IF dir /\ ~dw THEN level - 1 ELSE level
    /\ rrdy' = IF dir THEN TRUE ELSE IF r_en THEN FALSE ELSE rrdy

CycleNull(w_en, w_data, r_en) ==
    /\ Depth = 0
    /\ UNCHANGED <<level, produce, consume, mem, rrdy, rdata>>

Cycle(w_en, w_data, r_en) ==
    /\ Ghost(w_en, w_data, r_en)
    /\ (CycleSync(w_en, w_data, r_en) \/ CycleBuf1(w_en, w_data, r_en)
        \/ CycleBuf(w_en, w_data, r_en) \/ CycleNull(w_en, w_data, r_en))
    /\ wait' = WaitNext(wait, q', Out')

Next == \E w_en \in BOOLEAN, w_data \in Data, r_en \in BOOLEAN : Cycle(w_en, w_data, r_en)
Spec == Init /\ [][Next]_vars

----------------------------------------------------------------------------
Slack == IF Variant = "buffered" THEN 2 ELSE 1
Clause == SyncClause(Depth, Slack, q, Out)
ObsAllowed   == Clause = ""                         \* every output the contract allows
ReadLive     == wait <= MaxSyncWait                 \* head readable within two cycles
FifoOrder    == IsPrefix(rout, win)
NothingLost  == MaxHist > 0 => win = rout \o q
(* refinement mapping: the abstract queue is what the registers hold *)
RECURSIVE Rows(_, _)
Rows(c, n) == IF n = 0 THEN <<>> ELSE <<mem[c]>> \o Rows(Incr(c, Inner), n - 1)
Mapping == IF Depth = 0 THEN q = <<>>
           ELSE IF Variant = "sync" THEN q = Rows(consume, level)
           ELSE IF Depth = 1 THEN q = (IF level = 1 THEN <<rdata>> ELSE <<>>)
           ELSE q = (IF rrdy THEN <<rdata>> ELSE <<>>) \o Rows(consume, level)
Constr == MaxHist > 0 => Len(win) <= MaxHist   \* MaxHist = 0: histories off, full graph
=============================================================================
