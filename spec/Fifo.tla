-------------------------------- MODULE Fifo --------------------------------
(* The abstract bounded queue every amaranth FIFO must refine (property C12 / C13).            *)
(* State: q (entries held, oldest first), o (outputs presented in the current cycle, chosen    *)
(* nondeterministically among those the contract allows), wait (cycles the head has been       *)
(* unreadable), win/rout (history of accepted writes / delivered reads).                       *)
EXTENDS FifoObs, SequencesExt, TLC

CONSTANTS Depth,      \* number of entries
          Data,       \* set of data values
          Variant,    \* "sync" | "buffered" | "async"
          MaxHist     \* bound on history length (state constraint only)

VARIABLES q, o, wait, win, rout
vars == <<q, o, wait, win, rout>>

Levels == 0..(Depth + 1)
Outs == [w_rdy: BOOLEAN, r_rdy: BOOLEAN, r_data: Data, level: Levels, r_level: Levels, w_level: Levels]

Slack == IF Variant = "buffered" THEN 2 ELSE 1

Allowed(qq, oo, ww) ==
    IF Variant = "async" THEN AsyncClause(Depth, qq, oo) = ""
    ELSE SyncClause(Depth, Slack, qq, oo) = "" /\ ww <= MaxSyncWait

Init == /\ q = <<>> /\ wait = 0 /\ win = <<>> /\ rout = <<>>
        /\ o \in {x \in Outs : Allowed(<<>>, x, 0)}

Cycle(w_en, w_data, r_en) ==
    /\ q' = QNext(q, o, w_en, w_data, r_en)
    /\ win' = IF DoW(o, w_en) THEN Append(win, w_data) ELSE win
    /\ rout' = IF DoR(o, r_en) THEN Append(rout, o.r_data) ELSE rout
    /\ \E x \in Outs :
          /\ o' = x
          /\ wait' = WaitNext(wait, q', x)
          /\ Allowed(q', x, wait')

Next == \E w_en \in BOOLEAN, w_data \in Data, r_en \in BOOLEAN : Cycle(w_en, w_data, r_en)

Spec == Init /\ [][Next]_vars

----------------------------------------------------------------------------
(* Properties of the abstract machine (what a user of any FIFO may rely on). *)
FifoOrder     == IsPrefix(rout, win)                  \* entries leave in the order they entered
NothingLost   == win = rout \o q                      \* none lost, none duplicated
Bounded       == Len(q) <= Depth
ReadsAreHeads == o.r_rdy => (Len(q) > 0 /\ o.r_data = Head(q))
NoDropOnRead  == [][Len(rout') <= Len(rout) + 1 /\ Len(win') <= Len(win) + 1]_vars

Constr == Len(win) <= MaxHist
=============================================================================
