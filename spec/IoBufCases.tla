----------------------------- MODULE IoBufCases -----------------------------
(* Builder for property C18: TLC enumerates every port-building program (see IoBuf) within the     *)
(* bounds below.  Every state with a finished program is one test case carrying the answers the     *)
(* specification gives:  len / direction / invert of the resulting port, the physical wire behind  *)
(* every port wire, which Buffer / FFBuffer directions are accepted, and (WithSim) what each        *)
(* accepted buffer shows at the leaf ports and at its `i` member for the stimulus sequence Stims.   *)
(* harness/props/c18.py builds the same expression from real SimulationPort objects with the       *)
(* public operators, simulates the buffers and compares literally.  The invariants are the          *)
(* theorems of IoBuf instantiated at every enumerated port.                                         *)
EXTENDS IoBuf, Json, IOUtils, TLC

CONSTANTS LeafW,       \* set of leaf widths
          MaxDepth,    \* nesting depth of the port expression (leaf = 0)
          ConcatK,     \* p + q is built only if depth(p) + depth(q) <= ConcatK
          BoolForms,   \* also construct leaves with invert=True / invert=False
          LeafDirs,    \* directions of the leaves
          NegKeys,     \* also keys counted from the end / with omitted bounds (on operands without a unary operation inside)
          WithSim      \* compute buffer observations for the stimulus in the file $IOBUF_STIM

(* stimulus: a sequence of [o, pin : Seq(BOOLEAN) of the maximal port width, oe, ei, eo : BOOLEAN]; *)
(* a port of width w uses the first w positions                                                     *)
Stims == JsonDeserialize(IOEnv.IOBUF_STIM).stims
StimW == Len(Stims[1].o)
(* the stimulus exercises every wire completely: all eight (o, oe, pin) combinations, any two     *)
(* wires are told apart on both o and pin, and the four edge combinations occur                    *)
StimComplete ==
    /\ \A k \in 1..StimW : \A a, b, c \in BOOLEAN :
          \E t \in 1..Len(Stims) : Stims[t].o[k] = a /\ Stims[t].oe = b /\ Stims[t].pin[k] = c
    /\ \A j, k \in 1..StimW : j # k =>
          /\ \E t \in 1..Len(Stims) : Stims[t].o[j] # Stims[t].o[k]
          /\ \E t \in 1..Len(Stims) : Stims[t].pin[j] # Stims[t].pin[k]
    /\ \A a, b \in BOOLEAN : \E t \in 1..Len(Stims) : Stims[t].ei = a /\ Stims[t].eo = b
ASSUME WithSim => StimComplete
ASSUME DirLaw

VARIABLES prog, st, exp
vars == <<prog, st, exp>>

(* (kind, direction) of the buffers tried on every finished port, in a fixed order *)
Combos == <<<<"comb", "i">>, <<"comb", "o">>, <<"comb", "io">>, <<"ff", "i">>, <<"ff", "o">>, <<"ff", "io">>>>
(* exp.acc lists the accepted buffers (all others must be refused with ValueError), each with the   *)
(* observations <<port.o, port.oe, i>> it must show for Stims; dir / inv / src of the port are in st  *)
Expect(s) ==
    IF s.err # "" \/ Len(s.stack) # 1 THEN [c |-> s.err # "", acc |-> <<>>]
    ELSE LET p == s.stack[1].p
             ok == SelectSeq(Combos, LAMBDA x : Accepts(x[2], p.dir))
         IN [c |-> TRUE,
             acc |-> [j \in 1..Len(ok) |->
                        [kind |-> ok[j][1], bdir |-> ok[j][2],
                         obs |-> IF ~WithSim \/ Width(p) > StimW THEN <<>>
                                 ELSE LET r == Run(ok[j][1], ok[j][2], p.inv, Stims)
                                      IN [t \in 1..Len(r) |-> EncObs(r[t])]]]]

Emit(op) == st' = ApplyOp(st, op) /\ prog' = Append(prog, op) /\ exp' = Expect(st')

sn == Len(st.stack)
(* depth the finished expression would have if a new operand of depth d were started now *)
RoomFor(d) ==
    IF sn = 0 THEN d <= MaxDepth
    ELSE /\ sn = 1 /\ Max(st.stack[1].d, d) + 1 <= MaxDepth /\ st.stack[1].d + d <= ConcatK

PushLeaf(dir, w, inv) ==
    /\ st.err = "" /\ RoomFor(0)
    /\ Emit([op |-> "leaf", dir |-> dir, w |-> w, form |-> "seq", inv |-> inv])
PushLeafBool(dir, w, b) ==
    /\ BoolForms /\ st.err = "" /\ sn = 0
    /\ Emit([op |-> "leaf", dir |-> dir, w |-> w, form |-> "bool", b |-> b])
UnaryOK ==
    /\ st.err = "" /\ sn >= 1
    /\ IF sn = 1 THEN Top(st).d + 1 <= MaxDepth
       ELSE Max(st.stack[1].d, Top(st).d + 1) + 1 <= MaxDepth /\ st.stack[1].d + Top(st).d + 1 <= ConcatK
(* keys: plain ones are 0 <= lo <= hi <= len and 0 <= i < len; with NegKeys, operands made of leaves and + only also  *)
(* get every Python form: bounds in -len..len or omitted, indices -len..-1.  Slices that select backwards are left out: *)
(* the underlying language refuses such slices of values (IndexError).                                                  *)
Plain == ~Top(st).u
DoSlice(lo, olo, hi, ohi) ==
    /\ UnaryOK
    /\ LET p == Top(st).p
           w == Width(p)
       IN /\ (olo => lo = 0) /\ (ohi => hi = 0)
          /\ lo >= -w /\ lo <= w /\ hi >= -w /\ hi <= w
          /\ (~NegKeys \/ ~Plain) => ~olo /\ ~ohi /\ lo >= 0 /\ hi >= 0
          /\ KeyLo(p, lo, olo) <= KeyHi(p, hi, ohi)
    /\ Emit([op |-> "slice", lo |-> lo, olo |-> olo, hi |-> hi, ohi |-> ohi])
DoIndex(i) ==
    /\ UnaryOK
    /\ LET w == Width(Top(st).p) IN i < w /\ i >= -w /\ (i < 0 => NegKeys /\ Plain)
    /\ Emit([op |-> "index", i |-> i])
DoInvert == UnaryOK /\ Emit([op |-> "invert"])
DoConcat == st.err = "" /\ sn = 2 /\ Emit([op |-> "concat"])

MaxW == 2 * (CHOOSE w \in LeafW : \A v \in LeafW : v <= w)
Init == prog = <<>> /\ st = Start /\ exp = Expect(Start)
Next ==
    \/ \E dir \in LeafDirs, w \in LeafW : \E inv \in Bits(w) : PushLeaf(dir, w, inv)
    \/ \E dir \in LeafDirs, w \in LeafW, b \in BOOLEAN : PushLeafBool(dir, w, b)
    \/ \E lo, hi \in (-MaxW)..MaxW, olo, ohi \in BOOLEAN : DoSlice(lo, olo, hi, ohi)
    \/ \E i \in (-MaxW)..MaxW : DoIndex(i)
    \/ DoInvert
    \/ DoConcat
Spec == Init /\ [][Next]_vars

(* ------------------------------ theorems ------------------------------ *)
Ports == {st.stack[j].p : j \in 1..sn}
PortsWellFormed == \A p \in Ports : WellFormed(p) /\ SrcInjective(p)
InvertInvolution == \A p \in Ports : InvertLaw(p)
SliceLaws == \A p \in Ports : SliceLaw(p)
KeyLaws == \A p \in Ports : KeyLaw(p)
ConcatLaws == sn = 2 => ConcatLaw(st.stack[1].p, st.stack[2].p)
Loopback == \A p \in Ports : LoopbackLaw(p)
(* the two operands of a sum never share a physical wire (programs use every leaf once) *)
Disjoint == sn = 2 => \A j \in 1..Width(st.stack[1].p), k \in 1..Width(st.stack[2].p) :
                        st.stack[1].p.src[j] # st.stack[2].p.src[k]
(* the expectation stored with a finished program is the evaluation of that program *)
ExpIsEval == exp = Expect(RunProg(prog))
=============================================================================
