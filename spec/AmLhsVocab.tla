----------------------------- MODULE AmLhsVocab -----------------------------
(* Shared vocabulary of assignment targets over the signals s1: unsigned(3), s2: signed(3),     *)
(* s3: unsigned(2) with run-time offsets/indices a (unsigned 2), a0 = a[0], z0 = zero-width 0.    *)
(* Used by MC_AmStmt (circuits, C02) and AmLhsCases (testbench writes, C05).                     *)
EXTENDS AmLhs

Sg(i) == [k |-> "sig", i |-> i]
Sl(x, lo, hi) == [k |-> "slice", x |-> x, lo |-> lo, hi |-> hi]
Ct(xs) == [k |-> "cat", xs |-> xs]
Pt(x, off, w, stride) == [k |-> "part", x |-> x, off |-> off, w |-> w, stride |-> stride]
Ar(xs, idx) == [k |-> "arr", xs |-> xs, idx |-> idx]
Re(x, s) == [k |-> "rei", x |-> x, s |-> s]

TreesRich == { Sg(1), Sg(2), Sl(Sg(1), 1, 3), Sl(Sg(2), 0, 2), Ct(<<Sg(3), Sl(Sg(1), 0, 2)>>),
               Pt(Sg(1), "a", 2, 1), Pt(Sg(1), "a0", 2, 2), Pt(Sg(2), "a", 1, 1), Ar(<<Sg(1), Sg(3)>>, "a0"),
               Re(Sg(2), FALSE), Sl(Re(Sg(1), TRUE), 1, 3), Sl(Ct(<<Sg(1), Sg(2)>>), 2, 5),
               Pt(Ct(<<Sg(3), Sg(1)>>), "a", 3, 1), Ar(<<Sg(1), Sg(2)>>, "z0"), Ct(<<>>), Sl(Sg(3), 1, 1),
               Pt(Ar(<<Sg(1), Sg(3)>>, "a0"), "a", 2, 1), Pt(Ar(<<Sg(3), Sg(2)>>, "a0"), "a0", 2, 2),
               \* a part select overhanging a window that is narrower than the signal: the overhang is dropped
               Pt(Sl(Sg(1), 0, 2), "a", 2, 1) }
(* deeper nestings, used for testbench writes *)
TreesDeep == TreesRich \cup
             { Pt(Sl(Sg(1), 1, 3), "a", 2, 1), Sl(Pt(Sg(1), "a", 3, 1), 1, 3), Ct(<<Pt(Sg(3), "a0", 1, 1), Re(Sg(2), FALSE)>>),
               Ar(<<Sl(Sg(1), 0, 2), Sg(3)>>, "a0"), Pt(Re(Sg(2), FALSE), "a", 2, 2), Pt(Sg(1), "a", 0, 1),
               Re(Ct(<<Sg(3), Sg(3)>>), TRUE), Ct(<<Sl(Sg(2), 2, 3), Sl(Sg(2), 0, 1)>>),
               Pt(Re(Sl(Sg(2), 0, 2), TRUE), "a", 2, 1), Pt(Pt(Sg(1), "z0", 2, 1), "a", 2, 1),
               Sl(Pt(Sl(Sg(1), 0, 2), "a0", 2, 1), 0, 2) }
TreesSmall == { Sg(1), Sl(Sg(1), 1, 3), Sg(2) }
=============================================================================
