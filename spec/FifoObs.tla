------------------------------ MODULE FifoObs ------------------------------
(* Observation rules of the FIFOInterface (docs/stdlib/fifo.rst + property C12/C13).          *)
(* Pure operators: given the abstract queue contents q (oldest first) and an observed output  *)
(* record o = [w_rdy, r_rdy, r_data, level, r_level, w_level], say which clause (if any) of    *)
(* the contract the observation breaks.  Shared by Fifo (abstract machine), FifoImpl           *)
(* (implementation-structured models checked by TLC) and FifoTrace (validation of executions   *)
(* recorded from amaranth.lib.fifo).                                                           *)
EXTENDS Naturals, Integers, Sequences

B2N(b) == IF b THEN 1 ELSE 0

(* Clauses common to every variant. "" means the observation is allowed. *)
SafetyClause(depth, q, o) ==
    IF o.r_rdy /\ Len(q) = 0 THEN "r_rdy_while_empty"
    ELSE IF o.r_rdy /\ o.r_data # Head(q) THEN "r_data_not_oldest"
    ELSE IF o.w_rdy /\ Len(q) >= depth THEN "w_rdy_while_full"
    ELSE IF Len(q) > depth THEN "more_than_depth_entries"
    ELSE ""

(* Synchronous variants: the three level outputs equal the number of entries held;            *)
(* w_rdy is asserted whenever `slack` free slots remain (1 unbuffered, 2 buffered);           *)
(* depth 0: the queue can neither be read nor written.                                        *)
SyncClause(depth, slack, q, o) ==
    LET s == SafetyClause(depth, q, o) IN
    IF s # "" THEN s
    ELSE IF o.level # Len(q) THEN "level_wrong"
    ELSE IF o.r_level # Len(q) THEN "r_level_wrong"
    ELSE IF o.w_level # Len(q) THEN "w_level_wrong"
    ELSE IF depth - Len(q) >= slack /\ depth > 0 /\ ~o.w_rdy THEN "w_rdy_not_live"
    ELSE ""

(* Asynchronous variants: levels only have to stay within 0..depth. *)
AsyncClause(depth, q, o) ==
    LET s == SafetyClause(depth, q, o) IN
    IF s # "" THEN s
    ELSE IF o.r_level < 0 \/ o.r_level > depth THEN "r_level_out_of_range"
    ELSE IF o.w_level < 0 \/ o.w_level > depth THEN "w_level_out_of_range"
    ELSE ""

(* The queue after one clock edge at which (w_en, w_data, r_en) were presented while o was     *)
(* observed: a write is accepted iff w_en /\ w_rdy, a read iff r_en /\ r_rdy.                  *)
DoW(o, w_en) == w_en /\ o.w_rdy
DoR(o, r_en) == r_en /\ o.r_rdy
AfterRead(q, o, r_en)  == IF DoR(o, r_en) /\ Len(q) > 0 THEN Tail(q) ELSE q
AfterWrite(q, o, w_en, w_data) == IF DoW(o, w_en) THEN Append(q, w_data) ELSE q
QNext(q, o, w_en, w_data, r_en) == AfterWrite(AfterRead(q, o, r_en), o, w_en, w_data)

(* Liveness of the read side, as a bounded-response counter: number of consecutive observed    *)
(* cycles in which an entry is held but r_rdy is low.                                          *)
WaitNext(wait, q, o) == IF Len(q) > 0 /\ ~o.r_rdy THEN wait + 1 ELSE 0
MaxSyncWait == 2

(* Documented rounding of the depth by the constructors. *)
RECURSIVE CeilLog2(_)
CeilLog2(n) == IF n <= 1 THEN 0 ELSE 1 + CeilLog2((n + 1) \div 2)
Pow2(n) == 2 ^ n
AsyncDepth(d) == IF d = 0 THEN 0 ELSE Pow2(CeilLog2(d))
AsyncBufDepth(d) == IF d = 0 THEN 0 ELSE Pow2(CeilLog2(IF d - 1 > 0 THEN d - 1 ELSE 0)) + 1
=============================================================================
