------------------------------ MODULE ElabOrder ------------------------------
(* Property C09, design targeting.  Elaboration of a design (amaranth/hdl/_ir.py: Fragment._propagate_   *)
(* domains, _create_missing_domains, Fragment.prepare, Design._assign_port_names / _assign_names;          *)
(* back/rtlil.py consumes the result in the same orders) is modelled as the CONSTRUCTION OF SEQUENCES       *)
(* from collections:                                                                                        *)
(*     created   the clock domains that the design uses but does not define, in order of creation           *)
(*     ports     top-level ports: the user's ports, then clk and rst of every created domain; each gets a   *)
(*               name de-duplicated against the names assigned so far ("n" -> "n$<#assigned>")              *)
(*     wires     per fragment: the signals used there, in order of first use, with names de-duplicated in   *)
(*               that order (local information only)                                                        *)
(*     subnames  per fragment: submodule names in order; anonymous ones are "U$<index>"                     *)
(*     cells     per fragment, per clock domain in the order in which the domains were first driven         *)
(* Every loop of the construction is a *group* of work items.  A group that iterates an ORDERED collection   *)
(* (list, insertion-ordered dict) is consumed head first.  A group that iterates a SET is consumed in any    *)
(* order: action PickFromSet chooses any remaining element (what PYTHONHASHSEED does to a set of strings).  *)
(*                                                                                                          *)
(* Invariant OutputIndependentOfPickOrder: the finished output equals the canonical output (every group      *)
(* consumed head first, set groups being listed in sorted order) whatever TLC picked.                        *)
(*                                                                                                          *)
(* NAMED SENSITIVITY "missing_domains": the set difference used_domains - defined_domains is iterated to     *)
(* create the missing domains.  With SortedDomains = FALSE this group is a set and TLC finds the counter-    *)
(* example as soon as a design has >= 2 missing domains (the port list differs); with SortedDomains = TRUE   *)
(* (iteration over sorted(...)) the invariant holds for the whole family.  The other loops iterate ordered   *)
(* collections in the code; the constant AsSet turns any of them into a set *hypothetically* (explored with   *)
(* at most PickBudget out-of-order picks, see below) so that TLC tells which design feature would expose     *)
(* such a regression:                                                                                        *)
(*     "used_signals"   -> any fragment with >= 2 named signals (order of wires); name clashes additionally   *)
(*                         change WHICH signal gets the "$n" suffix (invariant NamesIndependentOfPickOrder)   *)
(*     "subfragments"   -> >= 2 submodules: cell order, and with anonymous submodules the names U$n           *)
(*     "stmt_domains"   -> a fragment driving >= 2 domains: cell order                                       *)
(* The harness (harness/props/c09.py) aims its design catalogue at exactly these features and rebuilds the    *)
(* model's own design family (32 designs, hierarchy depth 1) on the real Fragment.prepare(): created domains, *)
(* port list, wire names per fragment and submodule names are compared with Out (a coverage figure: this      *)
(* model is implementation-structured; the verdicts of C09 come from Repro / ReproTrace).                     *)
EXTENDS Naturals, Sequences, FiniteSets, TLC

CONSTANTS SortedDomains,     \* TRUE: missing domains are created in sorted order (the repaired code)
          AsSet,             \* subset of {"used_signals", "subfragments", "stmt_domains"}: hypothetical sets
          PickBudget,        \* hypothetical sets: at most this many out-of-order picks per construction (they have up
                             \* to 12 elements: all 12! orders are neither feasible nor needed to expose a dependence);
                             \* the real set (missing domains, <= 3 elements) is always explored in every order
          MaxImplicit,       \* family: 0..MaxImplicit clock domains used without being defined (<= 3)
          SpreadChoices,     \* family: implicit domains driven in the top fragment (FALSE) / in submodules (TRUE)
          ClashChoices,      \* family: several signals (and a submodule) share one name
          AnonChoices,       \* family: submodules are anonymous
          Emit               \* TRUE: print the family and the finished outputs for the harness

ASSUME /\ SortedDomains \in BOOLEAN /\ Emit \in BOOLEAN /\ MaxImplicit \in 0..3 /\ PickBudget \in Nat
       /\ AsSet \subseteq {"used_signals", "subfragments", "stmt_domains"}
       /\ SpreadChoices \subseteq BOOLEAN /\ ClashChoices \subseteq BOOLEAN /\ AnonChoices \subseteq BOOLEAN

(* ------------------------------- generic helpers -------------------------------------------------------- *)
Range(s) == {s[i] : i \in 1..Len(s)}
AppendNew(s, x) == IF x \in Range(s) THEN s ELSE Append(s, x)
RECURSIVE Flat(_)
Flat(ss) == IF ss = <<>> THEN <<>> ELSE Head(ss) \o Flat(Tail(ss))
RECURSIVE MapSeq(_, _)
MapSeq(F(_), s) == IF s = <<>> THEN <<>> ELSE <<F(Head(s))>> \o MapSeq(F, Tail(s))
Remove(s, i) == SubSeq(s, 1, i - 1) \o SubSeq(s, i + 1, Len(s))
Upto(n) == [i \in 1..n |-> i]

(* ------------------------------- domains and signals ---------------------------------------------------- *)
DomSorted == <<"bar", "baz", "foo", "sync">>          \* every domain name of the family, in sorted order
DomIdx(d) == CHOOSE i \in 1..Len(DomSorted) : DomSorted[i] = d
SortDoms(S) == SelectSeq(DomSorted, LAMBDA d : d \in S)
Imp == <<"foo", "bar", "baz">>                        \* implicit domains in order of first use (not sorted)
(* design signals are 1..9; the clock and reset of domain d are 100 + 2*idx and 101 + 2*idx *)
Clk(d) == 100 + 2 * DomIdx(d)
Rst(d) == 101 + 2 * DomIdx(d)
DomOfSig(s) == DomSorted[(s - 100) \div 2]
SigName(D, s) ==
    IF s < 100 THEN D.sigs[s]
    ELSE LET d == DomOfSig(s)
             k == IF s % 2 = 0 THEN "clk" ELSE "rst"
         IN IF d = "sync" THEN k ELSE d \o "_" \o k

(* ------------------------------- the design family ------------------------------------------------------ *)
(* top:  x <= a (sync)                     [+ r_k <= b in implicit domain k, unless spread]                   *)
(* sub1: s = a (comb);  y <= s (sync)      [+ implicit domains 1, 3 if spread]                                *)
(* sub2: z <= s (sync)                     [+ implicit domain 2 if spread]       s crosses the hierarchy      *)
(* clash: y and s are also called "x", the registers r_k are all called "r", sub1 is called "x" as well        *)
RegName(k, cl) == IF cl THEN "r" ELSE "r" \o ToString(k)
ImpStmt(k) == <<Imp[k], 5 + k, 2>>
ImpStmts(ks) == MapSeq(ImpStmt, ks)
MkDesign(n, sp, cl, an) ==
    [ feat     |-> [nimp |-> n, spread |-> sp, clash |-> cl, anon |-> an],
      sigs     |-> <<"a", "b", "x", IF cl THEN "x" ELSE "y", IF cl THEN "x" ELSE "s", RegName(1, cl), RegName(2, cl), RegName(3, cl), "z">>,
      declared |-> <<"sync">>,
      ports    |-> <<1, 2>>,
      frags    |-> << [name |-> "top", parent |-> 0,
                       stmts |-> << <<"sync", 3, 1>> >> \o (IF sp THEN <<>> ELSE ImpStmts(Upto(n)))],
                      [name |-> IF an THEN "" ELSE IF cl THEN "x" ELSE "u1", parent |-> 1,
                       stmts |-> << <<"comb", 5, 1>>, <<"sync", 4, 5>> >>
                                 \o (IF sp THEN ImpStmts(SelectSeq(Upto(n), LAMBDA k : k % 2 = 1)) ELSE <<>>)],
                      [name |-> IF an THEN "" ELSE "u2", parent |-> 1,
                       stmts |-> << <<"sync", 9, 5>> >>
                                 \o (IF sp THEN ImpStmts(SelectSeq(Upto(n), LAMBDA k : k % 2 = 0)) ELSE <<>>)] >> ]
Family == {MkDesign(n, sp, cl, an) : n \in 0..MaxImplicit, sp \in SpreadChoices, cl \in ClashChoices, an \in AnonChoices}

VARIABLES design, phase, groups, st, picks, budget
vars == <<design, phase, groups, st, picks, budget>>
D == design

(* ------------------------------- ordered traversals of one design --------------------------------------- *)
NF(Dn) == Len(Dn.frags)
Children(Dn, f) == SelectSeq(Upto(NF(Dn)), LAMBDA c : Dn.frags[c].parent = f)       \* in subfragment order
FragDoms(Dn, f) ==                      \* `fragment.statements` is a dict: domains in order of first statement
    LET RECURSIVE Go(_, _)
        Go(ss, acc) == IF ss = <<>> THEN acc ELSE Go(Tail(ss), AppendNew(acc, Head(ss)[1]))
    IN Go(Dn.frags[f].stmts, <<>>)
FragUses(Dn, f) ==                      \* Design._collect_used_signals for one fragment
    LET OfDom(d) == (IF d = "comb" THEN <<>> ELSE <<Clk(d), Rst(d)>>)
                    \o Flat(MapSeq(LAMBDA s : <<s[2], s[3]>>, SelectSeq(Dn.frags[f].stmts, LAMBDA s : s[1] = d)))
    IN Flat(MapSeq(OfDom, FragDoms(Dn, f)))
UsedDomains(Dn) == UNION {Range(FragDoms(Dn, f)) : f \in 1..NF(Dn)} \ {"comb"}       \* DomainCollector: a set
Missing(Dn) == UsedDomains(Dn) \ Range(Dn.declared)                                  \* a set difference

(* Design._use_signal for hierarchies of depth <= 1: a signal seen in two different fragments is routed     *)
(* through the top fragment (their least common ancestor) at the moment of the second sighting.             *)
RECURSIVE UseFold(_, _, _)
UseFold(evs, used, lca) ==
    IF evs = <<>> THEN used
    ELSE LET f == Head(evs)[1]
             s == Head(evs)[2]
         IN IF s \in Range(used[f]) THEN UseFold(Tail(evs), used, lca)
            ELSE LET u1 == [used EXCEPT ![f] = Append(@, s)]
                 IN IF lca[s] = 0 THEN UseFold(Tail(evs), u1, [lca EXCEPT ![s] = f])
                    ELSE UseFold(Tail(evs), [u1 EXCEPT ![1] = AppendNew(@, s)], [lca EXCEPT ![s] = 1])
AllSigs == (1..9) \cup (102..109)
UsedSignals(Dn, portSigs) ==
    LET evs == Flat(MapSeq(LAMBDA f : MapSeq(LAMBDA s : <<f, s>>, FragUses(Dn, f)), Upto(NF(Dn))))
               \o MapSeq(LAMBDA p : <<1, p>>, portSigs)
    IN UseFold(evs, [f \in 1..NF(Dn) |-> <<>>], [s \in AllSigs |-> 0])

(* ------------------------------- the construction steps ------------------------------------------------- *)
AddName(assigned, name) ==              \* hdl/_ir.py _add_name
    IF name \in assigned THEN name \o "$" \o ToString(Cardinality(assigned)) ELSE name

St0(Dn) == [created |-> <<>>, ports |-> <<>>, passigned |-> {},
            assigned |-> [f \in 1..NF(Dn) |-> {}], wires |-> [f \in 1..NF(Dn) |-> <<>>],
            subnames |-> [f \in 1..NF(Dn) |-> <<>>], cells |-> <<>>]

Apply(Dn, s, kind, it) ==
    CASE kind = "create" -> [s EXCEPT !.created = Append(@, it)]
      [] kind = "port" ->
            LET nm == AddName(s.passigned, SigName(Dn, it))
            IN [s EXCEPT !.ports = Append(@, <<it, nm>>), !.passigned = @ \cup {nm}]
      [] kind = "sig" ->
            LET f == it[1]
                g == it[2]
            IN IF \E w \in Range(s.wires[f]) : w[1] = g THEN s        \* a port of the top level: already named
               ELSE LET nm == AddName(s.assigned[f], SigName(Dn, g))
                    IN [s EXCEPT !.wires[f] = Append(@, <<g, nm>>), !.assigned[f] = @ \cup {nm}]
      [] kind = "sub" ->
            LET f == it[1]
                c == it[2]
                n0 == IF Dn.frags[c].name = "" THEN "U$" \o ToString(Len(s.subnames[f])) ELSE Dn.frags[c].name
                nm == AddName(s.assigned[f], n0)
            IN [s EXCEPT !.subnames[f] = Append(@, <<c, nm>>), !.assigned[f] = @ \cup {nm}]
      [] kind = "cell" -> [s EXCEPT !.cells = Append(@, it)]

NextPhase(p) == CASE p = "create" -> "ports" [] p = "ports" -> "names" [] p = "names" -> "cells" [] p = "cells" -> "done"

(* state changes made when a phase starts (top-level names are reserved for the ports first) *)
Enter(Dn, p, s) ==
    IF p = "names"
    THEN [s EXCEPT !.assigned[1] = {q[2] : q \in Range(s.ports)},
                   !.wires[1] = SelectSeq(s.ports, LAMBDA q : SigName(Dn, q[1]) = q[2])]
    ELSE s

Group(kind, ordered, items) == [kind |-> kind, ordered |-> ordered, items |-> items]
Gen(Dn, p, s) ==
    LET gs ==
        CASE p = "create" -> << Group("create", SortedDomains, SortDoms(Missing(Dn))) >>
          [] p = "ports"  -> << Group("port", TRUE, Dn.ports \o Flat(MapSeq(LAMBDA d : <<Clk(d), Rst(d)>>, s.created))) >>
          [] p = "names"  ->
                LET used == UsedSignals(Dn, MapSeq(LAMBDA q : q[1], s.ports))
                IN Flat(MapSeq(LAMBDA f : << Group("sig", "used_signals" \notin AsSet, MapSeq(LAMBDA g : <<f, g>>, used[f])),
                                             Group("sub", "subfragments" \notin AsSet, MapSeq(LAMBDA c : <<f, c>>, Children(Dn, f))) >>,
                                Upto(NF(Dn))))
          [] p = "cells"  -> MapSeq(LAMBDA f : Group("cell", "stmt_domains" \notin AsSet,
                                                     MapSeq(LAMBDA d : <<f, d>>, FragDoms(Dn, f))), Upto(NF(Dn)))
          [] p = "done"   -> <<>>
    IN SelectSeq(gs, LAMBDA g : g.items # <<>>)

Consume(gs, i) ==
    LET g == Head(gs)
        rest == Remove(g.items, i)
    IN IF rest = <<>> THEN Tail(gs) ELSE <<[g EXCEPT !.items = rest]>> \o Tail(gs)

Out(s) == [created |-> s.created, ports |-> s.ports, wires |-> s.wires, subnames |-> s.subnames, cells |-> s.cells]
NameMap(s) == [ports |-> Range(s.ports), wires |-> [f \in DOMAIN s.wires |-> Range(s.wires[f])],
               subnames |-> [f \in DOMAIN s.subnames |-> Range(s.subnames[f])]]

(* the canonical construction: every group head first *)
RECURSIVE Run(_, _, _, _)
Run(Dn, p, gs, s) ==
    IF gs # <<>> THEN Run(Dn, p, Consume(gs, 1), Apply(Dn, s, Head(gs).kind, Head(gs).items[1]))
    ELSE IF p = "done" THEN s
    ELSE LET p1 == NextPhase(p)
             s1 == Enter(Dn, p1, s)
         IN Run(Dn, p1, Gen(Dn, p1, s1), s1)
Canon(Dn) == Run(Dn, "create", Gen(Dn, "create", St0(Dn)), St0(Dn))

(* ------------------------------- the nondeterministic construction -------------------------------------- *)
Init == /\ design \in Family
        /\ phase = "create"
        /\ st = St0(design)
        /\ groups = Gen(design, "create", St0(design))
        /\ picks = <<>>
        /\ budget = PickBudget
        /\ (Emit => PrintT(<<"DESIGN", design>>))

PickOrdered ==
    /\ groups # <<>> /\ Head(groups).ordered
    /\ st' = Apply(D, st, Head(groups).kind, Head(groups).items[1])
    /\ groups' = Consume(groups, 1)
    /\ UNCHANGED <<design, phase, picks, budget>>

PickFromSet ==
    /\ groups # <<>> /\ ~Head(groups).ordered
    /\ \E i \in 1..Len(Head(groups).items) :
          /\ (i = 1 \/ Head(groups).kind = "create" \/ budget > 0)
          /\ st' = Apply(D, st, Head(groups).kind, Head(groups).items[i])
          /\ groups' = Consume(groups, i)
          /\ picks' = Append(picks, <<Head(groups).kind, Head(groups).items[i]>>)
          /\ budget' = IF i = 1 \/ Head(groups).kind = "create" THEN budget ELSE budget - 1
    /\ UNCHANGED <<design, phase>>

Advance ==
    /\ groups = <<>> /\ phase # "done"
    /\ LET p1 == NextPhase(phase)
           s1 == Enter(D, p1, st)
       IN /\ phase' = p1 /\ st' = s1 /\ groups' = Gen(D, p1, s1)
          /\ (Emit /\ p1 = "done" => PrintT(<<"OUT", D.feat, Out(s1)>>))
    /\ UNCHANGED <<design, picks, budget>>

Next == PickOrdered \/ PickFromSet \/ Advance
Spec == Init /\ [][Next]_vars

(* ------------------------------- properties -------------------------------------------------------------- *)
OutputIndependentOfPickOrder == phase = "done" => Out(st) = Out(Canon(design))
(* weaker: the same names are given to the same objects (the order of declarations may differ) *)
NamesIndependentOfPickOrder == phase = "done" => NameMap(st) = NameMap(Canon(design))
(* sanity of the model itself: every created domain contributes two ports, names within a scope are unique *)
WellFormed ==
    phase = "done" =>
        /\ Len(st.ports) = Len(design.ports) + 2 * Len(st.created)
        /\ Range(st.created) = Missing(design)
        /\ Cardinality({q[2] : q \in Range(st.ports)}) = Len(st.ports)
        /\ \A f \in 1..NF(design) :
              Cardinality({w[2] : w \in Range(st.wires[f])} \cup {c[2] : c \in Range(st.subnames[f])})
                  = Len(st.wires[f]) + Len(st.subnames[f])
=============================================================================
