----------------------------- MODULE AmLhsCases -----------------------------
(* Property C05, write side, as an enumeration: every initial state is one testbench write       *)
(* ctx.set(target, v) - (target tree, current values of all signals, offset value, written        *)
(* integer) - together with the values of all signals afterwards according to AmLhs.             *)
EXTENDS AmLhsVocab, TLC

CONSTANTS Written        \* set of integers written (defined in the MC module: may be negative)
VARIABLE c

Shs == (1 :> Unsigned(3)) @@ (2 :> Signed(3)) @@ (3 :> Unsigned(2))
States == { (1 :> 5) @@ (2 :> -2) @@ (3 :> 0), (1 :> 7) @@ (2 :> -1) @@ (3 :> 3), (1 :> 2) @@ (2 :> 2) @@ (3 :> 2),
            (1 :> 0) @@ (2 :> 0) @@ (3 :> 0) }
EnvOf(a) == [e \in {"a", "a0", "z0"} |-> IF e = "a" THEN a ELSE IF e = "a0" THEN a % 2 ELSE 0]

Init == c \in { [t |-> t, a |-> a, st |-> st, v |-> v, exp |-> Assign(t, v, st, EnvOf(a), Shs)]
                  : t \in TreesDeep, a \in 0..3, st \in States, v \in Written }
Next == UNCHANGED c
Spec == Init /\ [][Next]_c

(* theorems: values stay in range; signals the target does not mention are untouched; writing the   *)
(* value just read back is the identity                                                             *)
RECURSIVE Mentioned(_)
Mentioned(t) == CASE t.k = "sig" -> {t.i}
                  [] t.k \in {"slice", "part", "rei"} -> Mentioned(t.x)
                  [] t.k \in {"cat", "arr"} -> UNION {Mentioned(t.xs[j]) : j \in 1..Len(t.xs)}
InRange == \A s \in 1..3 : Fits(c.exp[s], Shs[s])
Frame == \A s \in 1..3 : s \notin Mentioned(c.t) => c.exp[s] = c.st[s]
WriteBackIdentity == Assign(c.t, ReadPat(c.t, c.st, EnvOf(c.a), Shs), c.st, EnvOf(c.a), Shs) = c.st
=============================================================================
