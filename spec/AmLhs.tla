-------------------------------- MODULE AmLhs --------------------------------
(* Assignment targets of the Amaranth language (guide: "Assignable values"): which bits of      *)
(* which signals an assignment touches and the value each receives.                             *)
(* A target is a tree:                                                                          *)
(*   [k |-> "sig",   i]                     a signal                                            *)
(*   [k |-> "slice", x, lo, hi]             x[lo:hi]   (0 <= lo <= hi <= width of x)             *)
(*   [k |-> "cat",   xs]                    Cat(xs[1], xs[2], ...)  (first = least significant)  *)
(*   [k |-> "part",  x, off, w, stride]     x.bit_select(off, w) (stride 1) / x.word_select(off, w) (stride w) *)
(*   [k |-> "arr",   xs, idx]               Array(xs)[idx]  (idx always in range)                *)
(*   [k |-> "rei",   x, s]                  x.as_signed() (s = TRUE) / x.as_unsigned()           *)
(* `shs` maps signal ids to shapes, `st` maps signal ids to their current integer values, `env`   *)
(* maps the names of run-time offset / index expressions to their current values.               *)
(* The right-hand side is an exact integer v; "truncated or zero-/sign-extended according to its  *)
(* own signedness to the width of the target" is simply the low Width(target) bits of v.         *)
EXTENDS AmShape

RECURSIVE TShape(_, _), SumW(_, _, _), ReadPat(_, _, _, _), WriteBits(_, _, _, _, _), WriteCat(_, _, _, _, _, _)

SumW(xs, n, shs) == IF n = 0 THEN 0 ELSE SumW(xs, n - 1, shs) + TShape(xs[n], shs).w
TShape(t, shs) ==
    CASE t.k = "sig"   -> shs[t.i]
      [] t.k = "slice" -> Unsigned(t.hi - t.lo)
      [] t.k = "cat"   -> Unsigned(SumW(t.xs, Len(t.xs), shs))
      [] t.k = "part"  -> Unsigned(t.w)
      [] t.k = "arr"   -> UnifySet({TShape(t.xs[j], shs) : j \in 1..Len(t.xs)})
      [] t.k = "rei"   -> [w |-> TShape(t.x, shs).w, s |-> t.s]
TWidth(t, shs) == TShape(t, shs).w

(* current bit pattern of a target expression (used for read-modify-write of enclosing targets) *)
ReadPat(t, st, env, shs) ==
    CASE t.k = "sig"   -> UPat(st[t.i], shs[t.i].w)
      [] t.k = "slice" -> Field(ReadPat(t.x, st, env, shs), t.lo, t.hi)
      [] t.k = "cat"   -> LET n == Len(t.xs) IN
                          IF n = 0 THEN 0
                          ELSE LET head == [t EXCEPT !.xs = SubSeq(t.xs, 1, n - 1)] IN
                               ReadPat(head, st, env, shs)
                               + Pow2(SumW(t.xs, n - 1, shs)) * ReadPat(t.xs[n], st, env, shs)
      [] t.k = "part"  -> Field(ReadPat(t.x, st, env, shs), env[t.off] * t.stride, env[t.off] * t.stride + t.w)
      [] t.k = "arr"   -> ReadPat(t.xs[env[t.idx] + 1], st, env, shs)
      [] t.k = "rei"   -> ReadPat(t.x, st, env, shs)

(* write the low TWidth(t) bits of p into t; everything else keeps its value *)
WriteBits(t, p, st, env, shs) ==
    CASE t.k = "sig"   -> [st EXCEPT ![t.i] = FromPat(UPat(p, shs[t.i].w), shs[t.i])]
      [] t.k = "slice" -> LET W   == TWidth(t.x, shs)
                              cur == ReadPat(t.x, st, env, shs)
                              new == FromBits([b \in 0..(W - 1) |->
                                        IF b >= t.lo /\ b < t.hi THEN Bit(p, b - t.lo) ELSE Bit(cur, b)], W)
                          IN WriteBits(t.x, new, st, env, shs)
      [] t.k = "cat"   -> WriteCat(t.xs, 1, p, st, env, shs)
      [] t.k = "part"  -> LET W   == TWidth(t.x, shs)
                              o   == env[t.off] * t.stride
                              cur == ReadPat(t.x, st, env, shs)
                              \* addressed bits at or beyond the width of x are silently dropped
                              new == FromBits([b \in 0..(W - 1) |->
                                        IF b >= o /\ b < o + t.w THEN Bit(p, b - o) ELSE Bit(cur, b)], W)
                          IN WriteBits(t.x, new, st, env, shs)
      [] t.k = "arr"   -> WriteBits(t.xs[env[t.idx] + 1], p, st, env, shs)
      [] t.k = "rei"   -> WriteBits(t.x, p, st, env, shs)
WriteCat(xs, j, p, st, env, shs) ==
    IF j > Len(xs) THEN st
    ELSE LET w == TWidth(xs[j], shs) IN
         WriteCat(xs, j + 1, p \div Pow2(w), WriteBits(xs[j], p % Pow2(w), st, env, shs), env, shs)

(* target.eq(v) for an exact integer v *)
Assign(t, v, st, env, shs) == WriteBits(t, UPat(v, TWidth(t, shs)), st, env, shs)

(* ---- patterns of Switch/Case and matches() ---- *)
(* pattern = [k |-> "int", v] | [k |-> "str", w, mask, val] (string of length w; '-' positions cleared in mask) *)
PatMatches(p, sh, x) ==
    IF p.k = "int" THEN Fits(p.v, sh) /\ x = p.v
    ELSE AndPat(UPat(x, sh.w), p.mask, sh.w) = p.val
AnyPatMatches(ps, sh, x) == \E j \in 1..Len(ps) : PatMatches(ps[j], sh, x)
=============================================================================
