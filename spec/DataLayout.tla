------------------------------ MODULE DataLayout ------------------------------
(* amaranth.lib.data layouts and amaranth.lib.enum shaped enumerations (property C15).           *)
(*                                                                                               *)
(* Written from docs/stdlib/data.rst, docs/stdlib/enum.rst, the class documentation of           *)
(* StructLayout / UnionLayout / ArrayLayout / FlexibleLayout / Layout.const / View / Const, the  *)
(* ShapeCastable laws (docs/guide.rst, hdl.ShapeCastable) and Python's enum.Flag.                 *)
(*                                                                                               *)
(* A SHAPE is a leaf or a layout.                                                                *)
(*   leaf    [k |-> "int",  name, w, s]                         unsigned(w) / signed(w)            *)
(*           [k |-> "enum", name, w, s, flag, boundary, members] shaped Enum / Flag class        *)
(*   layout  [k |-> "struct", fields |-> << [name, sh], ... >>]     fields contiguous, in order  *)
(*           [k |-> "union",  fields |-> << [name, sh], ... >>]     all at offset 0, size = max   *)
(*           [k |-> "array",  elem |-> sh, n |-> length]            element i at i * Width(elem) *)
(*           [k |-> "flex",   size, fields |-> << [name, sh, off], ... >>]   explicit placement   *)
(* Binding conventions (harness/props/c15.py): a field is addressed by its POSITION i (1-based)  *)
(* in the layout; Key(l, i) is the Python key: the field name, a name "#n" denotes the integer   *)
(* key n of a FlexibleLayout, array position i is index i-1.  A PATH is a sequence of positions. *)
(* Bit patterns ("raw") are naturals below 2^Size; the VALUE of a field is its bit slice         *)
(* reinterpreted in the field's shape (two's complement for signed leaves).                      *)
(*                                                                                               *)
(* The module is a BUILDER: the reachable states with top # NoTop are the layouts under test     *)
(* (and the enumeration classes under test); every theorem below is an invariant evaluated for   *)
(* every such state over ALL bit patterns of the underlying value.  Each state carries the       *)
(* table `tab` of expected results, dumped with -dump and replayed against the real classes.     *)
EXTENDS Integers, Sequences, FiniteSets, TLC

CONSTANTS MaxBits,          \* bound on the size of a layout under test
          MaxFields,        \* fields of a layout of leaves
          NestedMaxFields,  \* fields of a layout that has a nested layout among its fields
          MaxNested,        \* nested layouts per layout
          InnerMaxFields,   \* fields of a nested layout
          MaxArr,           \* array lengths 0..MaxArr
          Leaves,           \* leaf names usable as top-level fields
          InnerLeaves,      \* leaf names usable inside nested layouts
          SibLeaves,        \* leaf names usable next to a nested layout
          FlexOffs,         \* offsets tried for fields of a flexible layout
          FlexPads,         \* unused bits above the last field of a flexible layout
          FullBits,         \* assignment / extra-initialiser tables use every raw pattern up to this size
          EnumClasses,      \* names of the enumeration classes under test (enum stage)
          FlagTier,         \* "none" / "small" / "quick" / "thorough": the family of flag classes (FlagFamily)
          Mutant            \* "" or a seeded specification error (non-vacuity of the theorems)

Pow2(n) == 2 ^ n
Max2(a, b) == IF a >= b THEN a ELSE b
Slice(raw, off, w) == (raw \div Pow2(off)) % Pow2(w)
ToSigned(bits, w) == IF w > 0 /\ bits >= Pow2(w - 1) THEN bits - Pow2(w) ELSE bits
(* replace bits [off, off+w) of raw by the low w bits of v; v may be negative or too wide        *)
Put(raw, off, w, v) == raw - Slice(raw, off, w) * Pow2(off) + (v % Pow2(w)) * Pow2(off)

----------------------------------------------------------------------------
(* Leaf shapes and enumeration classes                                                          *)
IntShape(nm, w, s) == [k |-> "int", name |-> nm, w |-> w, s |-> s]
EnumShape(nm, w, s, flag, bnd, mem) ==
    [k |-> "enum", name |-> nm, w |-> w, s |-> s, flag |-> flag, boundary |-> bnd, members |-> mem]

Catalogue ==
       "u1"  :> IntShape("u1", 1, FALSE)
    @@ "u2"  :> IntShape("u2", 2, FALSE)
    @@ "s2"  :> IntShape("s2", 2, TRUE)
    @@ "s3"  :> IntShape("s3", 3, TRUE)
    @@ "e2"  :> EnumShape("e2", 2, FALSE, FALSE, "", <<0, 1, 3>>)             \* Enum, shape=unsigned(2); 2 is no member
    @@ "se2" :> EnumShape("se2", 2, TRUE, FALSE, "", <<-2, 0, 1>>)            \* Enum, shape=signed(2); -1 is no member
    @@ "f3"  :> EnumShape("f3", 3, FALSE, TRUE, "strict", <<1, 4>>)           \* Flag, shape=unsigned(3); bit 1 undefined
    \* classes used by the enumeration stage only
    @@ "e3"  :> EnumShape("e3", 3, FALSE, FALSE, "", <<0, 1, 2, 5, 7>>)
    @@ "se3" :> EnumShape("se3", 3, TRUE, FALSE, "", <<-4, -1, 0, 3>>)
    @@ "f3a" :> EnumShape("f3a", 3, FALSE, TRUE, "strict", <<1, 2, 4>>)       \* all bits defined
    @@ "f4c" :> EnumShape("f4c", 4, FALSE, TRUE, "strict", <<1, 2, 3, 8>>)    \* alias 3 = 1|2; bit 2 undefined
    @@ "f3m" :> EnumShape("f3m", 3, FALSE, TRUE, "conform", <<2, 4>>)         \* boundary=CONFORM; bit 0 undefined
    @@ "f3k" :> EnumShape("f3k", 3, FALSE, TRUE, "keep", <<1, 4>>)            \* boundary=KEEP; bit 1 undefined

IsLeaf(sh) == sh.k \in {"int", "enum"}
Range(sh) == IF sh.s THEN (0 - Pow2(sh.w - 1)) .. (Pow2(sh.w - 1) - 1) ELSE 0 .. (Pow2(sh.w) - 1)
SeqToSet(s) == {s[i] : i \in 1..Len(s)}

(* ---- flag arithmetic on member masks (sets of bit positions) ---- *)
BitSet(v, w) == {i \in 0..(w - 1) : (v \div Pow2(i)) % 2 = 1}
RECURSIVE FromBitSet(_)
FromBitSet(S) == IF S = {} THEN 0 ELSE LET i == CHOOSE j \in S : TRUE IN Pow2(i) + FromBitSet(S \ {i})
(* A flag class = shape width + named members (values, in declaration order; may contain 0, one-bit *)
(* members, multi-bit members that are aliases of declared one-bit members or bring bits of their   *)
(* own) + boundary.  The masks are those of Python's enum.Flag (Lib/enum.py, 3.11+):               *)
FlagMask(e)    == UNION {BitSet(m, e.w) : m \in SeqToSet(e.members)}         \* _flag_mask_: bits used by any member
SinglesMask(e) == UNION {BitSet(m, e.w) : m \in {x \in SeqToSet(e.members) : Cardinality(BitSet(x, e.w)) = 1}}
                                                                             \* _singles_mask_: the canonical (one-bit) flags
RECURSIVE BitLen(_)
BitLen(n) == IF n = 0 THEN 0 ELSE 1 + BitLen(n \div 2)
AllBitsMask(e) == Pow2(BitLen(FromBitSet(FlagMask(e)))) - 1                  \* _all_bits_: up to the highest used bit,
                                                                             \* NOT the width of the shape
GapBits(e) == BitSet(AllBitsMask(e), e.w) \ FlagMask(e)                      \* unused bits below the highest used bit
(* Bit patterns that denote a value of the class ("valid raw" of the ShapeCastable laws: Class(v) *)
(* is a member with value v).  Enum: the members.  Flag: every combination of bits used by        *)
(* members, named or not (also bits that only a multi-bit member uses); boundary KEEP: every      *)
(* pattern.  (STRICT raises for other patterns, CONFORM drops the other bits, EJECT returns an int.)*)
(* STRICT additionally refuses ("no members with value ...") a combination that contains named    *)
(* members but is not made up of named members entirely (Flag._missing_: e.g. X=1, YZ=6: 3 = X|2  *)
(* is refused, 2 and 4 alone are accepted, 7 = X|YZ is accepted).                                  *)
NamedIn(e, v) == UNION {BitSet(m, e.w) : m \in {x \in SeqToSet(e.members) : x # 0 /\ BitSet(x, e.w) \subseteq BitSet(v, e.w)}}
ValidValue(e, v) ==
    IF e.k = "int" THEN v \in Range(e)
    ELSE IF ~e.flag THEN v \in SeqToSet(e.members)
    ELSE /\ v \in 0..(Pow2(e.w) - 1)
         /\ (e.boundary = "keep" \/ BitSet(v, e.w) \subseteq FlagMask(e))
         /\ (e.boundary = "strict" => NamedIn(e, v) \in {BitSet(v, e.w), {}})
ValidValues(e) == {v \in Range(e) : ValidValue(e, v)}
(* a | b, a & b, a ^ b are Class(bitwise result): DEFINED where that is a value of the class (for a *)
(* STRICT class with multi-bit members of their own bits Python raises otherwise; a view has no     *)
(* defined result there)                                                                          *)
FlagOr(e, a, b)  == FromBitSet(BitSet(a, e.w) \cup BitSet(b, e.w))
FlagAnd(e, a, b) == FromBitSet(BitSet(a, e.w) \cap BitSet(b, e.w))
FlagXor(e, a, b) == FromBitSet((BitSet(a, e.w) \cup BitSet(b, e.w)) \ (BitSet(a, e.w) \cap BitSet(b, e.w)))
FlagEq(e, a, b) == a = b
FlagBool(e, a) == a # 0
FlagIn(e, a, b) == BitSet(a, e.w) \subseteq BitSet(b, e.w)                   \* `a in b`
(* ~a as enum.Flag.__invert__ defines it (the integer Python computes; FlagView.__invert__: "just  *)
(* like the Python enum.Flag class, only bits corresponding to flags actually defined in the       *)
(* enumeration are included in the result"):                                                      *)
(*   STRICT, CONFORM: the canonical flags not in a            (_singles_mask_ & ~a)               *)
(*   KEEP, EJECT:     Class(~a): all bits up to the highest used bit, complemented; if that is no *)
(*                    value of the class (a has bits above, or an unused bit would be set) EJECT  *)
(*                    returns the integer ~a itself and KEEP complements within the bits of a      *)
FlagNot(e, a) ==
    IF Mutant = "flag_not_unmasked" THEN FromBitSet((0..(e.w - 1)) \ BitSet(a, e.w))
    ELSE IF e.boundary \in {"keep", "eject"}
    THEN LET all == AllBitsMask(e)
             out == a > all \/ (GapBits(e) \ BitSet(a, e.w)) # {} IN
         IF ~out THEN all - a
         ELSE IF e.boundary = "eject" THEN 0 - a - 1
         ELSE Max2(all + 1, Pow2(BitLen(a + 1))) - a - 1
    ELSE FromBitSet(SinglesMask(e) \ BitSet(a, e.w))
FlagNotBits(e, a) == FlagNot(e, a) % Pow2(e.w)       \* the same as a bit pattern of the shape (what a view can hold)
(* GUARD (decision recorded in the evidence as an assumption): for KEEP / EJECT classes Python converts *)
(* the unbounded integer ~a back with _all_bits_, which it derives from the MEMBERS, while a view over  *)
(* an n-bit hardware value complements the n bits of the SHAPE; docs/stdlib/enum.rst does not mention   *)
(* boundary=.  Where the shape is wider than the members need the two readings differ and `~` of a      *)
(* FlagView is UNSPECIFIED; it is compared with the real code only where they coincide.  (FlagNot above *)
(* is Python's definition in every case and is cross-checked against Python's enum.Flag for all classes;*)
(* all other operators, and `~` of STRICT / CONFORM classes, are compared on every class.)              *)
InvertSpecified(e) == e.boundary \in {"strict", "conform"} \/ AllBitsMask(e) = Pow2(e.w) - 1

----------------------------------------------------------------------------
(* Placement rules                                                                              *)
Struct(fs) == [k |-> "struct", fields |-> fs]
Union(fs)  == [k |-> "union", fields |-> fs]
Array(e, n) == [k |-> "array", elem |-> e, n |-> n]
Flex(sz, fs) == [k |-> "flex", size |-> sz, fields |-> fs]

NF(l) == IF l.k = "array" THEN l.n ELSE Len(l.fields)                 \* number of fields
Sub(l, i) == IF l.k = "array" THEN l.elem ELSE l.fields[i].sh          \* shape of field i
Key(l, i) == IF l.k = "array" THEN ToString(i - 1) ELSE l.fields[i].name

RECURSIVE Width(_), SumTo(_, _), MaxTo(_, _)
SumTo(l, n) == IF n = 0 THEN 0 ELSE SumTo(l, n - 1) + Width(Sub(l, n))
MaxTo(l, n) == IF n = 0 THEN 0 ELSE Max2(MaxTo(l, n - 1), Width(Sub(l, n)))
Width(sh) ==
    CASE IsLeaf(sh)      -> sh.w
      [] sh.k = "struct" -> SumTo(sh, NF(sh))                         \* "the sum of the sizes of its members"
      [] sh.k = "union"  -> IF Mutant = "union_size_sum" THEN SumTo(sh, NF(sh))
                            ELSE MaxTo(sh, NF(sh))                    \* "the size of the largest of its members"
      [] sh.k = "array"  -> Width(sh.elem) * sh.n                     \* "size of its element multiplied by its length"
      [] sh.k = "flex"   -> sh.size
Size(l) == Width(l)
Signed(sh) == IsLeaf(sh) /\ sh.s                                      \* a layout is unsigned(Size)

(* offset of field i (position) within its layout *)
Off(l, i) ==
    CASE l.k = "struct" -> SumTo(l, i - 1)                            \* "follow one another without any gaps"
      [] l.k = "union"  -> 0                                          \* "all start from bit 0"
      [] l.k = "array"  -> (i - 1) * (Width(l.elem) + (IF Mutant = "array_stride" THEN 1 ELSE 0))
      [] l.k = "flex"   -> l.fields[i].off
Pos(l, key) == CHOOSE i \in 1..NF(l) : Key(l, i) = key
Offset(l, key) == Off(l, Pos(l, key))                                 \* layout[key].offset

(* ---- paths ---- *)
RECURSIVE NodeAt(_, _), AbsOff(_, _), PathsOf(_), KeysOf(_, _)
NodeAt(l, p) == IF p = <<>> THEN l ELSE NodeAt(Sub(l, Head(p)), Tail(p))
AbsOff(l, p) == IF p = <<>> THEN 0 ELSE Off(l, Head(p)) + AbsOff(Sub(l, Head(p)), Tail(p))
KeysOf(l, p) == IF p = <<>> THEN <<>> ELSE <<Key(l, Head(p))>> \o KeysOf(Sub(l, Head(p)), Tail(p))
RECURSIVE PathsFrom(_, _)
PathsFrom(l, i) ==         \* paths through fields i..NF(l), pre-order
    IF i > NF(l) THEN <<>>
    ELSE <<<<i>>>> \o [j \in 1..Len(PathsOf(Sub(l, i))) |-> <<i>> \o PathsOf(Sub(l, i))[j]] \o PathsFrom(l, i + 1)
PathsOf(sh) == IF IsLeaf(sh) THEN <<>> ELSE PathsFrom(sh, 1)
Paths(l) == PathsOf(l)     \* every field, nested layouts and leaves alike (not the root)

----------------------------------------------------------------------------
(* Reading                                                                                      *)
Reinterpret(bits, sh) == IF Signed(sh) THEN ToSigned(bits, sh.w) ELSE bits
(* bits of the node at path p: a view of a view is a slice of a slice *)
RECURSIVE FieldBits(_, _, _)
FieldBits(raw, l, p) ==
    IF p = <<>> THEN raw
    ELSE FieldBits(Slice(raw, Off(l, Head(p)), Width(Sub(l, Head(p)))), Sub(l, Head(p)), Tail(p))
FieldOf(raw, l, p) == Reinterpret(FieldBits(raw, l, p), NodeAt(l, p))

(* Writing: assignment through a view field replaces exactly that field's bits *)
AssignField(raw, l, p, v) == Put(raw, AbsOff(l, p), Width(NodeAt(l, p)), v)

(* Initialisers.  leaf: an integer; layout: an ORDERED mapping << <<position, initialiser>>, ... >>*)
(* Layout.const: "a constant that has the same value as a view with this layout that was        *)
(* initialized with an all-zero value and had every field assigned to the corresponding value    *)
(* in the order in which they appear in init".                                                  *)
(* An entry <<position, v, cw, cs>> initialises a field of plain shape with a CONSTANT that has  *)
(* its own shape (amaranth.hdl.Const(v, signed(cw) / unsigned(cw)), v in that shape's range): as *)
(* in any assignment the field receives v converted to the field's shape (truncated, or zero- /  *)
(* sign-extended according to the constant's own signedness, i.e. v modulo 2^width of the FIELD);*)
(* exactly the field's bits are replaced, whatever the width of the constant.                    *)
IsTyped(entry) == Len(entry) = 4
RECURSIVE ConstVal(_, _), ConstFold(_, _, _, _)
ConstFold(l, init, k, acc) ==
    IF k > Len(init) THEN acc
    ELSE LET i == init[k][1]
             w == IF Mutant = "const_mask_from_init" /\ IsTyped(init[k]) THEN init[k][3] ELSE Width(Sub(l, i)) IN
         ConstFold(l, init, k + 1, Put(acc, Off(l, i), w, ConstVal(Sub(l, i), init[k][2])))
ConstVal(sh, init) == IF IsLeaf(sh) THEN init % Pow2(sh.w) ELSE ConstFold(sh, init, 1, 0)
Pack(l, init) == ConstVal(l, init)

(* the initialiser that describes a bit pattern: all fields in declaration order; for a union    *)
(* (at most one field may be initialised) its first widest field                                *)
Widest(l) == CHOOSE i \in 1..NF(l) : /\ Width(Sub(l, i)) = MaxTo(l, NF(l))
                                     /\ \A j \in 1..(i - 1) : Width(Sub(l, j)) < Width(Sub(l, i))
RECURSIVE Unpack(_, _)
Unpack(sh, raw) ==
    IF IsLeaf(sh) THEN Reinterpret(raw, sh)
    ELSE IF sh.k = "union"
         THEN IF NF(sh) = 0 THEN <<>>
              ELSE LET i == Widest(sh) IN << <<i, Unpack(Sub(sh, i), Slice(raw, 0, Width(Sub(sh, i))))>> >>
         ELSE [i \in 1..NF(sh) |-> <<i, Unpack(Sub(sh, i), Slice(raw, Off(sh, i), Width(Sub(sh, i))))>>]
(* an initialiser can be written down in Python iff every enumeration leaf holds a valid value *)
RECURSIVE InitOK(_, _)
InitOK(sh, init) ==
    IF IsLeaf(sh) THEN ValidValue(sh, init)
    ELSE \A k \in 1..Len(init) :
            IF IsTyped(init[k])
            THEN /\ Sub(sh, init[k][1]).k = "int"
                 /\ init[k][2] \in Range([w |-> init[k][3], s |-> init[k][4]])
            ELSE InitOK(Sub(sh, init[k][1]), init[k][2])
(* the same initialiser with every typed constant replaced by the in-range integer it converts to *)
RECURSIVE Normalised(_, _)
Normalised(sh, init) ==
    IF IsLeaf(sh) THEN init
    ELSE [k \in 1..Len(init) |->
            LET f == Sub(sh, init[k][1]) IN
            IF IsTyped(init[k]) THEN <<init[k][1], Reinterpret(init[k][2] % Pow2(f.w), f)>>
            ELSE <<init[k][1], Normalised(f, init[k][2])>>]

(* bits of the layout that belong to some leaf reached by Unpack *)
RECURSIVE CoverMask(_), CoverFold(_, _, _)
CoverFold(l, init, acc) ==   \* init: positions to visit
    IF init = <<>> THEN acc
    ELSE LET i == Head(init)
             m == CoverMask(Sub(l, i))
             b == BitSet(acc, Width(l)) \cup {Off(l, i) + j : j \in BitSet(m, Width(Sub(l, i)))}
         IN CoverFold(l, Tail(init), FromBitSet(b))
CoverMask(sh) ==
    IF IsLeaf(sh) THEN Pow2(sh.w) - 1
    ELSE IF sh.k = "union" THEN (IF NF(sh) = 0 THEN 0 ELSE CoverFold(sh, <<Widest(sh)>>, 0))
    ELSE CoverFold(sh, [i \in 1..NF(sh) |-> i], 0)
RECURSIVE Tight(_)
Tight(sh) ==   \* struct / union / array all the way down: every bit belongs to a leaf
    IsLeaf(sh) \/ (sh.k \in {"struct", "union", "array"} /\ \A i \in 1..NF(sh) : Tight(Sub(sh, i)))

----------------------------------------------------------------------------
(* Builder                                                                                      *)
VARIABLES items,    \* fields collected so far (shapes)
          top,      \* the finished object under test, or NoTop
          tab       \* expected results for top (replayed by the harness)
vars == <<items, top, tab>>
NoTop == [k |-> "none"]

Names == <<"a", "b", "c", "d">>
FlexNames == <<"a", "#0", "_p", "#3">>        \* string key, integer key 0, reserved (underscore) name
SeqsUpTo(S, n) == UNION {[1..k -> S] : k \in 0..n}
Named(shs) == [i \in 1..Len(shs) |-> [name |-> Names[i], sh |-> shs[i]]]
LeafSeq(names) == [i \in 1..Len(names) |-> Catalogue[names[i]]]
FlexOf(shs, offs, pad) ==
    LET fs == [i \in 1..Len(shs) |-> [name |-> FlexNames[i], sh |-> shs[i], off |-> offs[i]]]
        RECURSIVE End(_)
        End(n) == IF n = 0 THEN 0 ELSE Max2(End(n - 1), offs[n] + Width(shs[n]))
    IN Flex(End(Len(shs)) + pad, fs)
NestedCount(shs) == Cardinality({i \in 1..Len(shs) : ~IsLeaf(shs[i])})
Room == top = NoTop /\ Len(items) < (IF NestedCount(items) > 0 THEN NestedMaxFields ELSE MaxFields)
RoomNested == /\ Room /\ Len(items) < NestedMaxFields /\ NestedCount(items) < MaxNested
              /\ \A i \in 1..Len(items) : IsLeaf(items[i]) => items[i].name \in SibLeaves

(* ---- what the harness replays: everything below is computed from the operators above ---- *)
RawsOf(l) == 0..(Pow2(Size(l)) - 1)
PatternRaws(l) ==     \* all patterns for small layouts, otherwise structured patterns
    IF Size(l) <= FullBits THEN RawsOf(l)
    ELSE LET n == Size(l)
             alt == FromBitSet({i \in 0..(n - 1) : i % 2 = 0})
             two == FromBitSet({i \in 0..(n - 1) : (i \div 2) % 2 = 0})
         IN {0, Pow2(n) - 1, alt, Pow2(n) - 1 - alt, two, Pow2(n) - 1 - two, 1, Pow2(n - 1)}
AssignValues(sh) ==   \* values assigned to a field of shape sh: in range, negative and too wide
    LET w == Width(sh) IN
    IF w <= 3 THEN (0 - Pow2(w)) .. (Pow2(w + 1) - 1)
    ELSE {0, 1, Pow2(w) - 1, Pow2(w), Pow2(w) + 1, 0 - 1, 0 - Pow2(w - 1), Pow2(w - 1),
          FromBitSet({i \in 0..(w - 1) : i % 2 = 0}), FromBitSet({i \in 0..w : i % 2 = 1})}
SetToSeq(S) == LET RECURSIVE Go(_)
                   Go(T) == IF T = {} THEN <<>> ELSE LET x == CHOOSE y \in T : \A z \in T : y <= z
                                                     IN <<x>> \o Go(T \ {x})
               IN Go(S)
(* Initialiser TEMPLATES: an initialiser whose leaves are indexes into Paths(l) instead of values; *)
(* Fill substitutes the values of one bit pattern (a row of tab.vals); a negative index -j takes   *)
(* the value of path j from a second row (the complemented pattern), so that overlapping fields   *)
(* can be given unrelated values.  UnpackT is Unpack's shape.                                     *)
IndexOf(ps, p) == CHOOSE j \in 1..Len(ps) : ps[j] = p
RECURSIVE UnpackT(_, _, _), Fill(_, _, _, _, _), NegT(_, _), TypT(_, _, _, _)
UnpackT(sh, pre, ps) ==
    IF IsLeaf(sh) THEN IndexOf(ps, pre)
    ELSE IF sh.k = "union"
         THEN IF NF(sh) = 0 THEN <<>>
              ELSE LET i == Widest(sh) IN << <<i, UnpackT(Sub(sh, i), pre \o <<i>>, ps)>> >>
         ELSE [i \in 1..NF(sh) |-> <<i, UnpackT(Sub(sh, i), pre \o <<i>>, ps)>>]
(* A template entry <<position, j, cw, cs>> stands for a typed constant of shape [cw, cs] whose bit *)
(* pattern is taken from the complemented pattern starting at the field's offset (wide[j]), so a   *)
(* constant wider than the field carries bits that differ from what the neighbouring fields get.  *)
CVal(x, cw, cs) == IF cs THEN ToSigned(x % Pow2(cw), cw) ELSE x % Pow2(cw)
Fill(sh, t, row, crow, wide) ==
    IF IsLeaf(sh) THEN (IF t > 0 THEN row[t] ELSE crow[0 - t])
    ELSE [k \in 1..Len(t) |->
            IF IsTyped(t[k]) THEN <<t[k][1], CVal(wide[t[k][2]], t[k][3], t[k][4]), t[k][3], t[k][4]>>
            ELSE <<t[k][1], Fill(Sub(sh, t[k][1]), t[k][2], row, crow, wide)>>]
(* every field of plain shape (at any depth) initialised by a constant d bits wider (narrower) than it *)
TypT(sh, t, d, cs) ==
    IF IsLeaf(sh) THEN t
    ELSE [k \in 1..Len(t) |->
            LET f == Sub(sh, t[k][1]) IN
            IF f.k = "int" THEN <<t[k][1], t[k][2], Max2(f.w + d, IF cs THEN 1 ELSE 0), cs>>
            ELSE <<t[k][1], TypT(f, t[k][2], d, cs)>>]
RECURSIVE TypedVals(_, _)
TypedVals(sh, init) ==      \* the values of the typed constants of a filled initialiser, in order of appearance
    IF IsLeaf(sh) THEN <<>>
    ELSE LET RECURSIVE Go(_)
             Go(k) == IF k > Len(init) THEN <<>>
                      ELSE (IF IsTyped(init[k]) THEN <<init[k][2]>> ELSE TypedVals(Sub(sh, init[k][1]), init[k][2])) \o Go(k + 1)
         IN Go(1)
NegT(sh, t) == IF IsLeaf(sh) THEN 0 - t ELSE [k \in 1..Len(t) |-> <<t[k][1], NegT(Sub(sh, t[k][1]), t[k][2])>>]
RemoveAt(s, i) == [j \in 1..(Len(s) - 1) |-> IF j < i THEN s[j] ELSE s[j + 1]]
Reverse(s) == [j \in 1..Len(s) |-> s[Len(s) + 1 - j]]
(* further initialisers of the top layout: each union member alone, each field left out (its bits *)
(* stay 0), fields given in reverse order (matters when fields overlap), every second field taken *)
(* from the complemented pattern (overlapping fields then disagree), nothing                      *)
ExtraTemplates(l, ps) ==
    LET full == [i \in 1..NF(l) |-> <<i, UnpackT(Sub(l, i), <<i>>, ps)>>]
        mixed == [i \in 1..NF(l) |-> IF i % 2 = 0 THEN <<i, NegT(Sub(l, i), full[i][2])>> ELSE full[i]]
        wide1 == TypT(l, full, 1, FALSE)      \* constants one bit wider, unsigned
        wide4 == TypT(l, full, 4, TRUE)       \* four bits wider, signed (negative values sign-extend)
        narrow == TypT(l, full, 0 - 1, FALSE) \* one bit narrower: the field's upper bit must still be replaced
    IN IF l.k = "union"
       THEN [i \in 1..NF(l) |-> <<full[i]>>] \o << <<>> >> \o [i \in 1..NF(l) |-> <<wide4[i]>>] \o [i \in 1..NF(l) |-> <<narrow[i]>>]
       ELSE [i \in 1..NF(l) |-> RemoveAt(full, i)] \o <<Reverse(full), mixed, Reverse(mixed), <<>>>>
            \o <<wide1, Reverse(wide4), narrow, Reverse(narrow)>> \o [i \in 1..NF(l) |-> RemoveAt(wide4, i)]
PathDesc(l, p) ==
    LET nd == NodeAt(l, p)
        par == NodeAt(l, SubSeq(p, 1, Len(p) - 1))
    IN [path |-> p, keys |-> KeysOf(l, p), kind |-> nd.k,
        name |-> IF IsLeaf(nd) THEN nd.name ELSE "",
        off |-> Off(par, p[Len(p)]),       \* layout[key].offset within the parent layout
        abs |-> AbsOff(l, p), w |-> Width(nd), s |-> Signed(nd),
        valid |-> IF IsLeaf(nd) /\ nd.k = "enum" THEN SetToSeq(ValidValues(nd)) ELSE <<>>]
(* The table is the tabulation of the operators above for one layout; the theorems below are    *)
(* evaluated on the tabulated values (tab.vals[raw+1][j] IS FieldOf(raw, L, Paths(L)[j]), etc.).  *)
LayoutTable(l) ==
    LET ps == Paths(l)
        n  == Pow2(Size(l))
        rs == SetToSeq(PatternRaws(l))
        vals == [r \in 1..n |-> [j \in 1..Len(ps) |-> FieldOf(r - 1, l, ps[j])]]
        ets == ExtraTemplates(l, ps)
        wide(r) == [j \in 1..Len(ps) |-> (n - 1 - r) \div Pow2(AbsOff(l, ps[j]))]   \* complemented pattern from path j upwards
        filled(r, y) == Fill(l, ets[y], vals[r + 1], vals[n - r], wide(r))
        ex == {r \in PatternRaws(l) \cup {q \in RawsOf(l) : q % 37 = 5} :
                  \A y \in 1..Len(ets) : InitOK(l, filled(r, y))}
        xs == SetToSeq(ex)
    IN [size   |-> Size(l),
        paths  |-> [j \in 1..Len(ps) |-> PathDesc(l, ps[j])],
        \* per bit pattern raw (index raw+1): the value of every path, in the order of `paths`
        vals   |-> vals,
        \* the initialiser that describes a bit pattern (template), whether it can be written down,
        \* and the constant it builds
        tmpl   |-> UnpackT(l, <<>>, ps),
        initok |-> [r \in 1..n |-> InitOK(l, Unpack(l, r - 1))],
        packed |-> [r \in 1..n |-> Pack(l, Unpack(l, r - 1))],
        \* further initialisers (templates) and the constants they build from selected patterns
        xtmpl  |-> ets,
        xraws  |-> xs,
        \* (row of the pattern xraws[x], second row of its complement)
        xconst |-> [x \in 1..Len(xs) |-> [y \in 1..Len(ets) |-> Pack(l, filled(xs[x], y))]],
        \* the values of the typed constants <<position, j, cw, cs>> of each template, in order of appearance
        xcv    |-> [x \in 1..Len(xs) |-> [y \in 1..Len(ets) |-> TypedVals(l, filled(xs[x], y))]],
        \* assignments: asg[j][x][y] = the pattern after assigning asgvals[j][y] to path j of asgraws[x]
        asgraws |-> rs,
        asgvals |-> [j \in 1..Len(ps) |-> SetToSeq(AssignValues(NodeAt(l, ps[j])))],
        asg    |-> [j \in 1..Len(ps) |->
                        LET vs == SetToSeq(AssignValues(NodeAt(l, ps[j])))
                            o == AbsOff(l, ps[j])
                            w == Width(NodeAt(l, ps[j])) IN    \* AssignField(rs[x], l, ps[j], vs[y]) unfolded
                        [x \in 1..Len(rs) |-> [y \in 1..Len(vs) |-> Put(rs[x], o, w, vs[y])]]]]

EnumTable(e) ==
    LET vs == SetToSeq(ValidValues(e)) IN
    [valid   |-> vs,
     invalid |-> SetToSeq(Range(e) \ ValidValues(e)),
     \* ops[x][y] = << a|b, a&b, a^b, a==b, a in b >> for a = valid[x], b = valid[y]
     ops     |-> IF ~e.flag THEN <<>> ELSE
                 [x \in 1..Len(vs) |-> [y \in 1..Len(vs) |->
                     <<FlagOr(e, vs[x], vs[y]), FlagAnd(e, vs[x], vs[y]), FlagXor(e, vs[x], vs[y]),
                       FlagEq(e, vs[x], vs[y]), FlagIn(e, vs[x], vs[y])>>]],
     nots    |-> IF ~e.flag THEN <<>> ELSE [x \in 1..Len(vs) |-> FlagNot(e, vs[x])],         \* Python's integer
     notbits |-> IF ~e.flag THEN <<>> ELSE [x \in 1..Len(vs) |-> FlagNotBits(e, vs[x])],     \* as a pattern of the shape
     notspec |-> e.flag /\ InvertSpecified(e),            \* is ~ of a view of this class specified (see the guard)
     bools   |-> IF ~e.flag THEN <<>> ELSE [x \in 1..Len(vs) |-> FlagBool(e, vs[x])],
     masks   |-> IF ~e.flag THEN <<>> ELSE
                 <<FromBitSet(FlagMask(e)), FromBitSet(SinglesMask(e)), AllBitsMask(e)>>]

(* flag classes of the enumerated family: every subset of the one-bit members of a w-bit shape,   *)
(* up to `max` multi-bit members out of `multi` (aliases of declared flags, partly or wholly       *)
(* uncovered), with and without a zero member, every boundary                                     *)
FlagFamily ==
    CASE FlagTier = "quick"    -> <<[w |-> 3, multi |-> {3, 5, 6, 7}, max |-> 2, zero |-> BOOLEAN],
                                    [w |-> 4, multi |-> {6, 12, 15}, max |-> 1, zero |-> {FALSE}]>>
      [] FlagTier = "thorough" -> <<[w |-> 3, multi |-> {3, 5, 6, 7}, max |-> 2, zero |-> BOOLEAN],
                                    [w |-> 4, multi |-> {3, 5, 6, 7, 9, 10, 11, 12, 13, 14, 15}, max |-> 2, zero |-> {FALSE}]>>
      [] FlagTier = "small"    -> <<[w |-> 3, multi |-> {6}, max |-> 1, zero |-> {FALSE}]>>
      [] OTHER                 -> <<>>
FlagClass(w, S, M, z, b) ==
    LET mem == (IF z THEN <<0>> ELSE <<>>) \o SetToSeq({Pow2(i) : i \in S}) \o SetToSeq(M)
    IN EnumShape("F" \o ToString(w) \o b \o ToString(mem), w, FALSE, TRUE, b, mem)

Init == items = <<>> /\ top = NoTop /\ tab = <<>>

AddLeaf(nm) == /\ Room /\ (NestedCount(items) > 0 => nm \in SibLeaves)
               /\ items' = Append(items, Catalogue[nm]) /\ UNCHANGED <<top, tab>>
AddNested(l) == RoomNested /\ Width(l) <= MaxBits /\ items' = Append(items, l) /\ UNCHANGED <<top, tab>>
AddInnerStruct == \E ns \in SeqsUpTo(InnerLeaves, InnerMaxFields) : AddNested(Struct(Named(LeafSeq(ns))))
AddInnerUnion  == \E ns \in SeqsUpTo(InnerLeaves, InnerMaxFields) : AddNested(Union(Named(LeafSeq(ns))))
AddInnerArray  == \E nm \in InnerLeaves, n \in 0..MaxArr : AddNested(Array(Catalogue[nm], n))
AddInnerFlex   == \E nm \in InnerLeaves, o \in FlexOffs, pad \in FlexPads :
                      AddNested(FlexOf(<<Catalogue[nm]>>, <<o>>, pad))
Finish(l) == /\ top = NoTop /\ Size(l) <= MaxBits
             /\ top' = l /\ tab' = LayoutTable(l) /\ UNCHANGED items
FinishStruct == Finish(Struct(Named(items)))
FinishUnion  == Finish(Union(Named(items)))
FinishArray  == Len(items) = 1 /\ \E n \in 0..MaxArr : Finish(Array(items[1], n))
FinishFlex   == /\ Len(items) <= (IF NestedCount(items) > 0 THEN 1 ELSE 2)
                /\ \E offs \in [1..Len(items) -> FlexOffs], pad \in FlexPads : Finish(FlexOf(items, offs, pad))
EnumCase == /\ top = NoTop /\ items = <<>>
            /\ \E nm \in EnumClasses : top' = Catalogue[nm] /\ tab' = EnumTable(Catalogue[nm]) /\ UNCHANGED items
FlagCase == /\ top = NoTop /\ items = <<>>
            /\ \E f \in 1..Len(FlagFamily) :
                 LET p == FlagFamily[f] IN
                 \E b \in {"strict", "conform", "eject", "keep"}, z \in p.zero, S \in SUBSET (0..(p.w - 1)) :
                 \E M \in {X \in SUBSET p.multi : Cardinality(X) <= p.max} :
                    /\ S # {} \/ M # {} \/ z
                    /\ top' = FlagClass(p.w, S, M, z, b)
                    /\ tab' = EnumTable(top')
                    /\ UNCHANGED items

Next == \/ \E nm \in Leaves : AddLeaf(nm)
        \/ AddInnerStruct \/ AddInnerUnion \/ AddInnerArray \/ AddInnerFlex
        \/ FinishStruct \/ FinishUnion \/ FinishArray \/ FinishFlex
        \/ EnumCase \/ FlagCase
Spec == Init /\ [][Next]_vars

----------------------------------------------------------------------------
(* Theorems (invariants): for every layout under test, every nested layout, every bit pattern   *)
IsLayoutState == top.k \in {"struct", "union", "array", "flex"}
IsEnumState == top.k = "enum"
L == top
Nodes == <<<<>>>> \o Paths(L)                      \* paths of all nodes including the root
LayoutNodes == {j \in 1..Len(Nodes) : ~IsLeaf(NodeAt(L, Nodes[j]))}
Extent(l, i) == Off(l, i) .. (Off(l, i) + Width(Sub(l, i)) - 1)

(* declared placement: struct fields contiguous in declaration order, union fields at offset 0   *)
(* with the size of the largest, array element i at i times the element width, every field of   *)
(* any layout inside the layout                                                                 *)
PlacementOf(l) ==
    /\ \A i \in 1..NF(l) : Off(l, i) >= 0 /\ Off(l, i) + Width(Sub(l, i)) <= Size(l)
    /\ \A i, j \in 1..NF(l) : i # j => Key(l, i) # Key(l, j)
    /\ \A i \in 1..NF(l) : Offset(l, Key(l, i)) = Off(l, i)
    /\ l.k = "struct" =>
          /\ \A i \in 1..NF(l) : Off(l, i) = IF i = 1 THEN 0 ELSE Off(l, i - 1) + Width(Sub(l, i - 1))
          /\ Size(l) = IF NF(l) = 0 THEN 0 ELSE Off(l, NF(l)) + Width(Sub(l, NF(l)))
          /\ \A i, j \in 1..NF(l) : i # j => Extent(l, i) \cap Extent(l, j) = {}
    /\ l.k = "union" =>
          /\ \A i \in 1..NF(l) : Off(l, i) = 0
          /\ NF(l) = 0 => Size(l) = 0
          /\ NF(l) > 0 => \E i \in 1..NF(l) : Width(Sub(l, i)) = Size(l)
    /\ l.k = "array" =>
          /\ \A i \in 1..NF(l) : Off(l, i) = (i - 1) * Width(l.elem)
          /\ Size(l) = NF(l) * Width(l.elem)
          /\ \A i, j \in 1..NF(l) : i # j => Extent(l, i) \cap Extent(l, j) = {}
Placement == IsLayoutState => \A j \in LayoutNodes : PlacementOf(NodeAt(L, Nodes[j]))

(* a field of a nested view is the slice at the sum of the offsets; values lie in the field's shape *)
NestedSlices == IsLayoutState =>
    LET ps == Paths(L) IN
    \A j \in 1..Len(ps) :
        LET p == ps[j]
            nd == NodeAt(L, p)
            o == AbsOff(L, p)
            w == Width(nd)
            rng == IF IsLeaf(nd) THEN Range(nd) ELSE 0..(Pow2(w) - 1) IN
        /\ tab.paths[j].abs = o /\ tab.paths[j].w = w /\ tab.paths[j].s = Signed(nd)
        /\ \A raw \in RawsOf(L) :
            LET v == tab.vals[raw + 1][j] IN          \* = FieldOf(raw, L, p)
            /\ v \in rng
            /\ v % Pow2(w) = Slice(raw, o, w)
        /\ \A raw \in PatternRaws(L) : tab.vals[raw + 1][j] = FieldOf(raw, L, p)

(* bits -> fields -> bits is the identity for structs, unions and arrays (every bit belongs to a  *)
(* leaf); for a flexible layout whose fields do not overlap, on the bits that belong to fields   *)
RECURSIVE Disjoint(_)
Disjoint(sh) == IsLeaf(sh) \/ /\ \A i \in 1..NF(sh) : Disjoint(Sub(sh, i))
                              /\ sh.k # "union" => \A i, j \in 1..NF(sh) : i # j => Extent(sh, i) \cap Extent(sh, j) = {}
PackUnpack == IsLayoutState =>
    LET cm == BitSet(CoverMask(L), Size(L))
        tight == Tight(L)
        disj == Disjoint(L) IN
    /\ tight => cm = 0..(Size(L) - 1)
    /\ \A raw \in PatternRaws(L) : /\ tab.packed[raw + 1] = Pack(L, Unpack(L, raw))
                                     /\ Fill(L, tab.tmpl, tab.vals[raw + 1], tab.vals[raw + 1], <<>>) = Unpack(L, raw)
    /\ tight \/ disj => \A raw \in RawsOf(L) : tab.packed[raw + 1] = FromBitSet(BitSet(raw, Size(L)) \cap cm)
    /\ \A raw \in RawsOf(L) : tab.packed[raw + 1] \in RawsOf(L)

(* fields -> bits -> fields: reading a field of the constant built from an initialiser returns   *)
(* the initialiser's value (fields that do not overlap a later one)                             *)
ReadBack == IsLayoutState =>
    \A raw \in RawsOf(L) :
        LET x == Unpack(L, raw)
            c == tab.packed[raw + 1] IN              \* = Pack(L, x)
        \A k \in 1..Len(x) :
            LET i == x[k][1] IN
            (\A k2 \in (k + 1)..Len(x) : Extent(L, i) \cap Extent(L, x[k2][1]) = {}) =>
                FieldOf(c, L, <<i>>) = Reinterpret(ConstVal(Sub(L, i), x[k][2]), Sub(L, i))

(* assignment through a field changes only that field's bits; the field then holds the value     *)
(* truncated to its width and reinterpreted                                                     *)
AssignFrame == IsLayoutState =>
    LET ps == Paths(L)
        raws == PatternRaws(L) \cup (IF Size(L) <= FullBits + 2 THEN RawsOf(L) ELSE {}) IN
    \A j \in 1..Len(ps) :
        LET p == ps[j]
            nd == NodeAt(L, p)
            o == AbsOff(L, p)
            w == Width(nd)
            vs == AssignValues(nd)
            rng == IF IsLeaf(nd) THEN Range(nd) ELSE 0..(Pow2(w) - 1) IN
        /\ \A raw \in raws : \A v \in vs :
            LET r2 == Put(raw, o, w, v) IN          \* = AssignField(raw, L, p, v)
            /\ r2 \in RawsOf(L)
            /\ Slice(r2, 0, o) = Slice(raw, 0, o)
            /\ r2 \div Pow2(o + w) = raw \div Pow2(o + w)
            /\ tab.vals[r2 + 1][j] = Reinterpret(v % Pow2(w), nd)
            /\ (v \in rng => tab.vals[r2 + 1][j] = v)
        /\ \A raw \in {0, Pow2(Size(L)) - 1} : \A v \in vs : AssignField(raw, L, p, v) = Put(raw, o, w, v)

(* a constant with its own shape used as a field initialiser behaves as the in-range integer it  *)
(* converts to: the other fields are untouched whatever the width of the constant               *)
TypedInit == IsLayoutState =>
    LET ps == Paths(L)
        n == Pow2(Size(L)) IN
    \A x \in 1..Len(tab.xraws) : \A y \in 1..Len(tab.xtmpl) :
        LET r == tab.xraws[x]
            f == Fill(L, tab.xtmpl[y], tab.vals[r + 1], tab.vals[n - r],
                      [j \in 1..Len(ps) |-> (n - 1 - r) \div Pow2(tab.paths[j].abs)]) IN
        /\ tab.xconst[x][y] = Pack(L, Normalised(L, f))      \* tab.xconst[x][y] IS Pack(L, f)
        /\ InitOK(L, Normalised(L, f))

(* flag enumerations: the binary operators are closed on the values of the class; ~a of STRICT /  *)
(* CONFORM classes consists of canonical flags only, is disjoint from a, completes a to all        *)
(* canonical flags, obeys De Morgan, and ~~a is a restricted to the canonical flags; for KEEP /    *)
(* EJECT classes ~a complements all bits up to the highest used bit (of values in that range)     *)
FlagLaws == IsEnumState /\ top.flag =>
    LET e == top
        V == ValidValues(e)
        sm == FromBitSet(SinglesMask(e)) IN
    \A a \in V :
        /\ \A b \in V :
              /\ e.boundary # "strict" \/ FlagMask(e) = SinglesMask(e) =>
                    FlagOr(e, a, b) \in V /\ FlagAnd(e, a, b) \in V /\ FlagXor(e, a, b) \in V
              /\ FlagIn(e, a, b) <=> FlagAnd(e, a, b) = a
              /\ e.boundary \in {"strict", "conform"} =>
                    FlagNot(e, FlagOr(e, a, b)) = FlagAnd(e, FlagNot(e, a), FlagNot(e, b))
        /\ e.boundary \in {"strict", "conform"} =>
              /\ FlagNot(e, a) \in V
              /\ FlagAnd(e, FlagNot(e, a), sm) = FlagNot(e, a)
              /\ FlagAnd(e, a, FlagNot(e, a)) = 0
              /\ FlagOr(e, FlagAnd(e, a, sm), FlagNot(e, a)) = sm
              /\ FlagNot(e, FlagNot(e, a)) = FlagAnd(e, a, sm)
        /\ e.boundary \in {"keep", "eject"} /\ a <= AllBitsMask(e) =>
              /\ FlagNotBits(e, a) % (AllBitsMask(e) + 1) = AllBitsMask(e) - a
              /\ (e.boundary = "keep" \/ GapBits(e) \subseteq BitSet(a, e.w)) => FlagNot(e, a) = AllBitsMask(e) - a
(* the const/from_bits round trip is defined on exactly the valid values; 0 is one of them for   *)
(* every class used as a field (the initial value of a signal)                                  *)
EnumValues == IsEnumState => ValidValues(top) \subseteq Range(top) /\ SeqToSet(top.members) \subseteq ValidValues(top)
=============================================================================
