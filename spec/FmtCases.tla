------------------------------ MODULE FmtCases ------------------------------
(* Property C20, text part, as an enumeration: a builder machine constructs every format            *)
(* specification of the grammar field by field for every shape; each final state (stage = 2) is one  *)
(* test case:                                                                                        *)
(*   c = [spec, st (the specification text), sh, cls ("accept" | "unsupported" | "reject"), why,      *)
(*        texts = {<<raw value, expected text>>}]                                                    *)
(* The harness builds Format("{:" + st + "}", signal of shape sh) with the real amaranth, compares    *)
(* accepted/rejected with cls, and the text printed in simulation for every raw value with texts.     *)
(* The invariants are theorems about the expected texts (they hold of Python's formatting; a seeded   *)
(* error in Fmt, FmtMutant, violates them).                                                           *)
EXTENDS Fmt, TLC

CONSTANTS Shapes,        \* set of [w, s]
          FillAligns,    \* set of <<fill, align>>
          Signs, Alts, Zeros, Widths, Grps, TypeSet,
          Picks,         \* values of interest (boundaries of digit counts, strings, code points)
          Rand           \* seeded random naturals < 2^24

VARIABLES stage, c

(* ---- the values tried for a shape: boundaries, strings of interest, seeded random patterns ---- *)
Ascii(r) == (r % 128) + ((r \div 256) % 128) * 256 + ((r \div 65536) % 128) * 65536
RawValues(sh) ==
    LET top == 2^sh.w IN
    {v \in Picks : v < top}
    \cup {x \in {top - 1, top \div 2, top \div 2 - 1} : x >= 0 /\ x < top}
    \cup {r % top : r \in Rand} \cup {Ascii(r) % top : r \in Rand}
    \cup (IF sh.w > 20 THEN {r % 1114112 : r \in Rand} ELSE {})

Case(sp, sh) ==
    LET cls == Class(sp, sh) IN
    [spec |-> sp, st |-> SpecText(sp), sh |-> sh, cls |-> cls, why |-> Why(sp, sh),
     texts |-> IF cls = "reject" THEN {}
               ELSE {<<raw, Text(raw, sp, sh)>> : raw \in {x \in RawValues(sh) : Defined(x, sp, sh)}}]

Init == /\ stage = 0
        /\ c \in {[type |-> t, sh |-> sh] : t \in TypeSet, sh \in Shapes}
Left == /\ stage = 0 /\ stage' = 1
        /\ \E fa \in FillAligns, sg \in Signs :
              c' = [type |-> c.type, sh |-> c.sh, fill |-> fa[1], align |-> fa[2], sign |-> sg]
Right == /\ stage = 1 /\ stage' = 2
         /\ \E alt \in Alts, zero \in Zeros, width \in Widths, grp \in Grps :
              c' = Case([fill |-> c.fill, align |-> c.align, sign |-> c.sign, alt |-> alt, zero |-> zero,
                         width |-> width, grp |-> grp, type |-> c.type], c.sh)
Next == Left \/ Right
Spec == Init /\ [][Next]_<<stage, c>>

(* ------------------------------ theorems ------------------------------ *)
Done == stage = 2
IsNum == Done /\ c.cls # "reject" /\ c.spec.type \notin {"c", "s"}
ZeroFilled == EffFill(c.spec) = 48 /\ EffAlignInt(c.spec) = "="

AllFill(s, f) == \A i \in 1..Len(s) : s[i] = f
(* text = core surrounded by fill characters placed according to the alignment *)
Padded(text, core, f, align) ==
    \E l \in 0..(Len(text) - Len(core)) :
        LET r == Len(text) - Len(core) - l IN
        /\ SubSeq(text, l + 1, l + Len(core)) = core
        /\ AllFill(SubSeq(text, 1, l), f) /\ AllFill(SubSeq(text, l + Len(core) + 1, Len(text)), f)
        /\ (align = "<" => l = 0) /\ (align = ">" => r = 0) /\ (align = "^" => r - l \in {0, 1})

WellFormedCases == Done => WellFormed(c.spec)
(* the field is at least as wide as asked, and no wider than needed (one more only when a zero-padded *)
(* grouped field would otherwise begin with a separator)                                               *)
WidthHonoured == Done /\ c.cls # "reject" =>
    \A p \in c.texts :
        LET core == IF c.spec.type = "s" THEN StringOf(p[1], c.sh) ELSE Core(Interp(p[1], c.sh), c.spec)
            need == Max(c.spec.width, Len(core))
        IN /\ Len(p[2]) >= need
           /\ Len(p[2]) <= need + (IF c.spec.type # "s" /\ ZeroFilled /\ c.spec.grp # "" THEN 1 ELSE 0)
(* the padding-free text denotes the value, read in the base of the presentation type; the value is    *)
(* the one the bit pattern has in its shape                                                             *)
RoundTrip == IsNum =>
    \A p \in c.texts : ReadBack(Core(Interp(p[1], c.sh), c.spec), c.spec) = ValueIn(p[1], c.sh)
(* sign-aware zero padding keeps the text readable as the same number *)
ZeroPadReads == IsNum /\ ZeroFilled =>
    \A p \in c.texts : ReadBack(p[2], c.spec) = ValueIn(p[1], c.sh)
(* other padding only adds fill characters on the side(s) the alignment names *)
PaddingOnly == Done /\ c.cls # "reject" /\ ~(c.spec.type # "s" /\ EffAlignInt(c.spec) = "=") =>
    \A p \in c.texts :
        LET isS == c.spec.type = "s"
            core == IF isS THEN StringOf(p[1], c.sh) ELSE Core(Interp(p[1], c.sh), c.spec)
        IN Padded(p[2], core, EffFill(c.spec), IF isS THEN EffAlignStr(c.spec) ELSE EffAlignInt(c.spec))
(* separators sit exactly between groups of 3 decimal / 4 binary, octal, hexadecimal digits *)
GroupingShape == IsNum /\ c.spec.grp # "" =>
    \A p \in c.texts :
        LET core == Core(Interp(p[1], c.sh), c.spec)
            lead == Len(SignOf(Interp(p[1], c.sh), c.spec)) + Len(PrefixOf(c.spec))
            g == IF Base(TypeOf(c.spec)) = 10 THEN 3 ELSE 4
        IN \A i \in (lead + 1)..Len(core) :
              (core[i] = Code(c.spec.grp)) <=> ((Len(core) - i) % (g + 1) = g)
(* a byte string is its own UTF-8 encoding *)
StringBytes == Done /\ c.cls # "reject" /\ c.spec.type = "s" =>
    \A p \in c.texts : Utf8Encode(StringOf(p[1], c.sh)) = NonZeroBytes(p[1], c.sh)
=============================================================================
