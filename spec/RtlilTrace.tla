------------------------------ MODULE RtlilTrace ------------------------------
(* Property C04: the RTLIL emitted for a design, read under the semantics of Rtlil.tla, must      *)
(* agree with the simulator.  A batch of (flattened netlist, stimulus, values observed in pysim)    *)
(* is read from the JSON file named by TRACE_FILE; each design is stepped in its own behaviour:    *)
(* apply the inputs of the step, update the registers that see their active edge (from values      *)
(* before the event) or an asserted asynchronous reset, settle the combinational nodes, check that  *)
(* the result solves every node equation, and compare every logged output/register with the value   *)
(* pysim showed after the same step.  Verdict: <<"ACC", tid, steps>> or <<"REJ", tid, step, what>>.  *)
EXTENDS Rtlil, Json, IOUtils, TLC

Batch == JsonDeserialize(IOEnv.TRACE_FILE)
Designs == Batch.traces

VARIABLES tid, k, w, mem, verdict
vars == <<tid, k, w, mem, verdict>>
D == Designs[tid]

RECURSIVE ApplySets(_, _, _)
ApplySets(sets, n, ww) ==         \* sets: sequence of <<bits, value>>
    IF n = 0 THEN ww ELSE SetBits(ApplySets(sets, n - 1, ww), sets[n][1], sets[n][2])

W0 == ApplySets(D.init, Len(D.init), [i \in 1..D.n |-> 0])

Init == /\ tid \in 1..Len(Designs) /\ k = 0 /\ verdict = ""
        /\ w = [i \in 1..2 |-> 0] /\ mem = <<>>

(* first mismatching observation of a step, as <<name, expected (pysim), rtlil value>>, or <<>> *)
Mismatch(exps, ww) ==
    LET bad == {j \in 1..Len(exps) : SVal(ww, exps[j][2], exps[j][3] = 1) # exps[j][4]} IN
    IF bad = {} THEN <<>>
    ELSE LET j == CHOOSE x \in bad : \A y \in bad : x <= y IN <<exps[j][1], exps[j][4], SVal(ww, exps[j][2], exps[j][3] = 1)>>

Start ==                      \* power-on: registers at their initial values, inputs 0, settle
    /\ verdict = "" /\ k = 0
    /\ LET w1 == Settle(D.nodes, W0, D.mems) IN
       IF ~Consistent(D.nodes, w1, D.mems)
       THEN /\ verdict' = "order" /\ PrintT(<<"REJ", tid, 0, "netlist_not_settled_by_given_order">>) /\ UNCHANGED <<w, mem, k, tid>>
       ELSE /\ w' = w1 /\ mem' = D.mems /\ k' = 1 /\ UNCHANGED <<verdict, tid>>

Step ==
    /\ verdict = "" /\ k >= 1 /\ k <= Len(D.steps)
    /\ LET st   == D.steps[k]
           wIn  == ApplySets(st.set, Len(st.set), w)
           wMid == Settle(D.nodes, wIn, mem)
           wFf  == ApplyFfs(D.ffs, Len(D.ffs), w, wMid, wIn)
           wRd  == ApplyReads(D.rds, Len(D.rds), D.wrs, w, wMid, mem, wFf)
           mNew == ApplyWrites(D.wrs, Len(D.wrs), w, wMid, mem)
           wNew == Settle(D.nodes, wRd, mNew)
           mm   == Mismatch(st.exp, wNew) IN
       IF ~Consistent(D.nodes, wNew, mNew)
       THEN /\ verdict' = "order" /\ PrintT(<<"REJ", tid, k, "netlist_not_settled_by_given_order">>) /\ UNCHANGED <<w, mem, k, tid>>
       ELSE IF mm # <<>>
       THEN /\ verdict' = "mismatch" /\ PrintT(<<"REJ", tid, k, "rtlil_differs_from_simulator", mm>>) /\ UNCHANGED <<w, mem, k, tid>>
       ELSE /\ w' = wNew /\ mem' = mNew /\ k' = k + 1 /\ UNCHANGED <<verdict, tid>>

Finish ==
    /\ verdict = "" /\ k = Len(D.steps) + 1
    /\ verdict' = "ACC" /\ PrintT(<<"ACC", tid, Len(D.steps)>>)
    /\ UNCHANGED <<tid, k, w, mem>>

Next == Start \/ Step \/ Finish
Spec == Init /\ [][Next]_vars
==============================================================================
