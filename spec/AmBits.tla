------------------------------- MODULE AmBits -------------------------------
(* Bit-vector arithmetic on exact TLA+ integers: the value domain of the Amaranth language.    *)
(* A shape is a record [w |-> width, s |-> signed]; a value of a shape is an INTEGER in the     *)
(* shape's range (two's complement reading of a w-bit pattern).  Everything is declarative:     *)
(* patterns are related to integers by congruence modulo 2^w, bits by floor division.           *)
(* (TLC integers are 32-bit: callers keep every width <= 30.)                                   *)
EXTENDS Integers, Sequences, FiniteSets

Pow2(n) == 2 ^ n
Max(a, b) == IF a >= b THEN a ELSE b
Min(a, b) == IF a <= b THEN a ELSE b
AbsI(a) == IF a < 0 THEN -a ELSE a

Unsigned(w) == [w |-> w, s |-> FALSE]
Signed(w)   == [w |-> w, s |-> TRUE]
IsShape(sh) == sh.w \in Nat /\ sh.s \in BOOLEAN /\ (sh.s => sh.w >= 1)

Lo(sh) == IF sh.s /\ sh.w > 0 THEN -Pow2(sh.w - 1) ELSE 0
Hi(sh) == IF sh.w = 0 THEN 0 ELSE IF sh.s THEN Pow2(sh.w - 1) - 1 ELSE Pow2(sh.w) - 1
Range(sh) == Lo(sh)..Hi(sh)
Fits(v, sh) == Lo(sh) <= v /\ v <= Hi(sh)

(* floor division / modulo for any non-zero divisor (TLC's % wants a positive divisor) *)
FloorDiv(a, b) == IF b > 0 THEN a \div b ELSE (-a) \div (-b)
FloorMod(a, b) == a - b * FloorDiv(a, b)

(* the w-bit pattern (a natural < 2^w) of an integer, and the integer a pattern denotes *)
UPat(v, w) == v % Pow2(w)
FromPat(u, sh) == IF sh.s /\ sh.w > 0 /\ u >= Pow2(sh.w - 1) THEN u - Pow2(sh.w) ELSE u
(* the unique element of Range(sh) congruent to v modulo 2^w *)
Norm(v, sh) == FromPat(UPat(v, sh.w), sh)

(* bit i (i >= 0) of the infinite two's complement expansion of an integer *)
Bit(v, i) == (v \div Pow2(i)) % 2

(* bit i of an operand of shape sh read as a bit sequence: beyond the MSB an unsigned operand   *)
(* reads 0 and a signed one reads its sign bit - which is exactly bit i of the integer.         *)
OperandBit(v, sh, i) == Bit(v, i)

(* assemble an integer from a function of bit positions 0..w-1 -> {0,1} *)
RECURSIVE SumBits(_, _)
SumBits(f, w) == IF w = 0 THEN 0 ELSE SumBits(f, w - 1) + f[w - 1] * Pow2(w - 1)
FromBits(f, w) == SumBits(f, w)

(* bitwise combination of two integers over w bits, giving a w-bit pattern *)
BitAndB(x, y) == x * y
BitOrB(x, y)  == IF x + y > 0 THEN 1 ELSE 0
BitXorB(x, y) == (x + y) % 2
AndPat(a, b, w) == FromBits([i \in 0..(w - 1) |-> BitAndB(Bit(a, i), Bit(b, i))], w)
OrPat(a, b, w)  == FromBits([i \in 0..(w - 1) |-> BitOrB(Bit(a, i), Bit(b, i))], w)
XorPat(a, b, w) == FromBits([i \in 0..(w - 1) |-> BitXorB(Bit(a, i), Bit(b, i))], w)

(* number of one bits among the low w bits *)
RECURSIVE PopCount(_, _)
PopCount(v, w) == IF w = 0 THEN 0 ELSE PopCount(v, w - 1) + Bit(v, w - 1)

(* bits lo..hi-1 of v as a natural *)
Field(v, lo, hi) == IF hi <= lo THEN 0 ELSE (v \div Pow2(lo)) % Pow2(hi - lo)

(* ---- theorems (checked by TLC on finite boxes in MC_AmBits) ---- *)
NormUnique(v, sh) == /\ Fits(Norm(v, sh), sh)
                     /\ (Norm(v, sh) - v) % Pow2(sh.w) = 0
                     /\ \A x \in Range(sh) : (x - v) % Pow2(sh.w) = 0 => x = Norm(v, sh)
BitsRebuild(v, sh) == Fits(v, sh) => Norm(FromBits([i \in 0..(sh.w - 1) |-> Bit(v, i)], sh.w), sh) = v
=============================================================================
