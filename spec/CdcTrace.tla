------------------------------ MODULE CdcTrace ------------------------------
(* Trace validation for amaranth.lib.cdc (property C17): every execution recorded from the     *)
(* real FFSynchronizer, AsyncFFSynchronizer, ResetSynchronizer and PulseSynchronizer           *)
(* (harness/cdc_drive.py) must be allowed by the contracts of module Cdc (Part 1 operators).   *)
(* A batch of traces is read from the JSON file named by the environment variable TRACE_FILE;  *)
(* each trace is validated in its own behaviour (tid chosen in Init).  The verdict is total:   *)
(* every trace ends by printing <<"ACC", tid, steps>> or <<"REJ", tid, step, clause>>          *)
(* (step 0 = the observation before the first event).                                          *)
(*                                                                                             *)
(* trace = [prim |-> "ff"|"async"|"reset"|"pulse", stages |-> n, init |-> ff init value,       *)
(*          reset_less |-> 0|1, edge |-> "pos"|"neg", i0 |-> input before the first event,     *)
(*          o0 |-> output before the first event,                                              *)
(*          steps |-> << <<ie, oe, v, r, o>>, ... >>]                                          *)
(* One step = one event: ie/oe = input-/output-domain clock edge in this event, v = value of   *)
(* the primitive's input after the event, r = value of the output domain's reset after the     *)
(* event (ff only), o = output observed after the event has settled.  The input may be any     *)
(* expression (a signal, ~x, a slice, ResetSignal("sync"), ResetSignal("sync") | req) and the   *)
(* synchroniser may live in any domains next to unrelated active ones (field env, informative): *)
(* v is the expression's value; events of unrelated domains and operand changes that keep the   *)
(* value are steps with ie = oe = 0 and v unchanged.                                            *)
(* The monitor is deterministic: shift-register history (ff), release-after-exactly-n counter  *)
(* (async, reset), pending-pulse ages and counters (pulse).  A clause starting with            *)
(* "ASSUMPTION" means the *generator* left the domain of the property (harness error).         *)
EXTENDS Naturals, Integers, Sequences, Json, IOUtils, TLC, TLCExt

(* the contracts; Cdc's model constants and variables are not used by the Part 1 operators *)
C == INSTANCE Cdc WITH Prims <- {}, StagesSet <- {}, Widths <- {}, Inits <- {}, ResetLessSet <- {},
                       Edges <- {}, Spacings <- {}, MaxDepth <- 0, MaxDepth2 <- 0, Mutant <- "",
                       cf <- 0, inp <- 0, rst <- 0, c <- 0, m <- 0, bad <- ""

Batch == JsonDeserialize(IOEnv.TRACE_FILE)
Traces == Batch.traces

VARIABLES tid, i, inp, rst, st, verdict
vars == <<tid, i, inp, rst, st, verdict>>

T == Traces[tid]
IsFF == T.prim = "ff"
IsAsync == T.prim \in {"async", "reset"}
EdgeOf == IF T.prim = "reset" THEN "pos" ELSE T.edge
Asserted(v) == C!IsAsserted(EdgeOf, v)

(* state before the first event, from the initial observation.  The power-on output of the    *)
(* asynchronous synchronisers is not documented: with the input released it may be either     *)
(* "asserted, as if the input had just been released" or "released"; the monitor adopts the   *)
(* observed one.                                                                              *)
St0 == IF IsFF THEN [hist |-> <<>>]
       ELSE IF IsAsync THEN [cnt |-> IF Asserted(T.i0) \/ T.o0 = 1 THEN 0 ELSE T.stages]
       ELSE C!PulseInit
Clause0 == IF IsFF THEN C!FFClause(T.o0, <<>>, T.stages, T.init)
           ELSE IF IsAsync THEN (IF Asserted(T.i0) /\ T.o0 # 1 THEN "async_output_not_asserted_with_input" ELSE "")
           ELSE IF T.o0 # 0 THEN "pulse_output_without_input_pulse" ELSE ""

Init == /\ tid \in 1..Len(Traces) /\ i = 0 /\ inp = T.i0 /\ rst = 0 /\ st = St0 /\ verdict = ""

Reject(step, cl) == /\ verdict' = cl /\ PrintT(<<"REJ", tid, step, cl>>)
                    /\ UNCHANGED <<tid, i, inp, rst, st>>

Step0 ==
    /\ verdict = "" /\ i = 0
    /\ IF Clause0 # "" THEN Reject(0, Clause0)
       ELSE i' = 1 /\ UNCHANGED <<tid, inp, rst, st, verdict>>

Step ==
    /\ verdict = "" /\ i >= 1 /\ i <= Len(T.steps)
    /\ LET s  == T.steps[i]
           ie == s[1] = 1
           oe == s[2] = 1
           v  == s[3]
           r  == s[4]
           o  == s[5]
           \* ff
           h1   == C!FFStep(st.hist, T.stages, oe, T.reset_less = 0 /\ rst = 1, inp, FALSE)
           \* async / reset
           cnt1 == C!AsyncStep(st.cnt, T.stages, oe, Asserted(inp), Asserted(v))
           \* pulse
           cl == IF IsFF THEN C!FFClause(o, h1, T.stages, T.init)
                 ELSE IF IsAsync THEN C!AsyncClause(o, cnt1, T.stages, Asserted(v))
                 ELSE IF ~C!PulseAssumed(st, ie, oe, inp, "strict") THEN "ASSUMPTION_no_output_edge_between_input_pulses"
                 ELSE C!PulseClause(st, T.stages, ie, oe, inp, o)
       IN IF cl # "" THEN Reject(i, cl)
          ELSE /\ st' = IF IsFF THEN [hist |-> h1]
                        ELSE IF IsAsync THEN [cnt |-> cnt1]
                        ELSE C!PulseNext(st, T.stages, ie, oe, inp, o, TRUE)
               /\ inp' = v /\ rst' = r /\ i' = i + 1
               /\ UNCHANGED <<tid, verdict>>

Finish ==
    /\ verdict = "" /\ i = Len(T.steps) + 1
    /\ verdict' = "ACC" /\ PrintT(<<"ACC", tid, Len(T.steps)>>)
    /\ UNCHANGED <<tid, i, inp, rst, st>>

Next == Step0 \/ Step \/ Finish
Spec == Init /\ [][Next]_vars

(* evaluated at every position of every real execution *)
Conserved == (T.prim = "pulse" /\ i >= 1) =>
    (st.outs <= st.ins /\ st.ins - st.outs = Len(st.pend) /\ Len(st.pend) <= T.stages + 1)
=============================================================================
