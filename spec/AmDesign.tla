------------------------------- MODULE AmDesign ------------------------------
(* Clock domains, resets and control inserters (guide: "Clock domains", "Control flow ...",       *)
(* reference of ResetInserter / EnableInserter / DomainRenamer; property C03).                    *)
(* The design: a submodule S holding registers r1 (domain D1), r2 (domain D2, reset-less) and r4    *)
(* (a two-bit signal whose bits are split between D1 and D2),                                      *)
(* each assigned the input d every cycle, and a one-bit memory row mw with a write port in D1       *)
(* (data d, always enabled), a synchronous read port mr in D2 and a read port mt in D1 that is      *)
(* transparent for the write port; all wrapped in a stack of inserters/renamers; and a          *)
(* register r3 in domain "A" at the top level, outside every wrapper.  Domains "A" and "B" have    *)
(* configurable active edge and reset style.  A behaviour is a sequence of *events*: simultaneous  *)
(* clock edges of A and/or B, or a change of one input (d, the control signals c1/c2, the resets). *)
(* Everything sampled at an edge is the value before the event.                                   *)
EXTENDS Integers, Sequences, FiniteSets, TLC

CONSTANTS DomCfgs,       \* set of [edge |-> "pos"|"neg", rst |-> "none"|"sync"|"async"] a domain may have
          Stacks,        \* set of wrapper stacks (innermost first); wrapper = [k |-> "reset"|"enable", dom, c] | [k |-> "rename", dom, to]
          RegDoms,       \* set of <<D1, D2>> choices (domains r1 / r2 are written in inside S)
          MaxEvents

VARIABLES cfg,           \* [A |-> domcfg, B |-> domcfg, ws |-> stack, d1, d2]   (the design; fixed in Init)
          v,             \* values of clkA, clkB, rstA, rstB, c1, c2, d, r1, r2, r3
          ev,            \* the last event (history, for replay)
          n
vars == <<cfg, v, ev, n>>

(* r4 is ONE two-bit signal inside S whose bit 0 (r4a) is driven in domain D1 and bit 1 (r4b) in domain D2 *)
(* mw (memory row), mr, mt (read port outputs) are state that no reset ever touches: memories have no reset *)
Inits == [r1 |-> 1, r2 |-> 1, r3 |-> 1, r4a |-> 1, r4b |-> 1, mw |-> 1, mr |-> 0, mt |-> 0]   \* initial (= reset) values
ResetLess == [r1 |-> FALSE, r2 |-> TRUE, r3 |-> FALSE, r4a |-> FALSE, r4b |-> FALSE, mw |-> TRUE, mr |-> TRUE, mt |-> TRUE]
BaseDom(r) == IF r \in {"r1", "r4a", "mw", "mt"} THEN cfg.d1 ELSE IF r \in {"r2", "r4b", "mr"} THEN cfg.d2 ELSE "A"
(* what the innermost logic loads: registers and the write port take d; the plain read port captures the row as it *)
(* was before the edge; the transparent one captures the data being written at that edge (its write port shares    *)
(* its domain and every wrapper, so it is enabled exactly when the read port is)                                 *)
Load(r, env) == IF r = "mr" THEN env["mw"] ELSE env["d"]
Stack(r) == IF r = "r3" THEN <<>> ELSE cfg.ws  \* r3 lives outside the wrapped subtree

RECURSIVE DomAfter(_, _)
DomAfter(r, i) ==        \* name of the domain the register's logic is in after the first i wrappers
    IF i = 0 THEN BaseDom(r)
    ELSE LET w == Stack(r)[i]
             dprev == DomAfter(r, i - 1) IN
         IF w.k = "rename" /\ w.dom = dprev THEN w.to ELSE dprev
FinalDom(r) == DomAfter(r, Len(Stack(r)))

RECURSIVE Upd(_, _, _)
Upd(r, i, env) ==        \* value the logic inside the first i wrappers loads at the active edge
    IF i = 0 THEN Load(r, env)
    ELSE LET w == Stack(r)[i]
             here == DomAfter(r, i - 1)
             inner == Upd(r, i - 1, env) IN
         IF w.k = "reset" /\ w.dom = here /\ ~ResetLess[r] THEN (IF env[w.c] = 1 THEN Inits[r] ELSE inner)
         ELSE IF w.k = "enable" /\ w.dom = here THEN (IF env[w.c] = 1 THEN inner ELSE env[r])
         ELSE inner

DomCfg(dn) == IF dn = "A" THEN cfg.A ELSE cfg.B
Clk(dn) == IF dn = "A" THEN "clkA" ELSE "clkB"
Rst(dn) == IF dn = "A" THEN "rstA" ELSE "rstB"
ActiveEdge(dn, old, new) ==
    IF DomCfg(dn).edge = "pos" THEN old[Clk(dn)] = 0 /\ new[Clk(dn)] = 1
    ELSE old[Clk(dn)] = 1 /\ new[Clk(dn)] = 0

(* the value register r holds after the event that takes the inputs from `old` to `new` *)
RegAfter(r, old, new) ==
    LET dn == FinalDom(r)
        dc == DomCfg(dn)
        rstNow == dc.rst # "none" /\ ~ResetLess[r] /\ old[Rst(dn)] = 1 IN
    IF dc.rst = "async" /\ ~ResetLess[r] /\ old[Rst(dn)] = 0 /\ new[Rst(dn)] = 1 THEN Inits[r]   \* as soon as reset rises
    ELSE IF ActiveEdge(dn, old, new) THEN (IF rstNow THEN Inits[r] ELSE Upd(r, Len(Stack(r)), old))
    ELSE old[r]

Regs == {"r1", "r2", "r3", "r4a", "r4b", "mw", "mr", "mt"}
Apply(changes) ==        \* changes: a function from some input names to new values
    LET new == [s \in DOMAIN v |-> IF s \in DOMAIN changes THEN changes[s] ELSE v[s]] IN
    [s \in DOMAIN v |-> IF s \in Regs THEN RegAfter(s, v, new) ELSE new[s]]

Init ==
    \* decl: where the two clock domains are declared - at the top level only, or ("inner") once more by the wrapped
    \* submodule itself (the same ClockDomain objects); the meaning of the wrappers does not depend on it.
    \* (A renamer around a module that declares the domains would rename the declarations too: not generated.)
    \* "shadow": the top level declares other, idle domains of the same names; the wrapped submodule and the module of r3
    \* declare the real ones themselves - a module's own declaration governs it and everything below it.
    /\ \E a \in DomCfgs, b \in DomCfgs, ws \in Stacks, dd \in RegDoms, dc \in {"top", "inner", "shadow"} :
          /\ dc # "top" => \A i \in 1..Len(ws) : ws[i].k # "rename"
          /\ cfg = [A |-> a, B |-> b, ws |-> ws, d1 |-> dd[1], d2 |-> dd[2], decl |-> dc]
    /\ v = [clkA |-> 0, clkB |-> 0, rstA |-> 0, rstB |-> 0, c1 |-> 0, c2 |-> 0, d |-> 0, r1 |-> 1, r2 |-> 1, r3 |-> 1,
            r4a |-> 1, r4b |-> 1, mw |-> 1, mr |-> 0, mt |-> 0]
    /\ ev = <<>> /\ n = 0

(* clock events: any non-empty simultaneous change of the two clocks *)
ClockEvent(ca, cb) ==
    /\ n < MaxEvents
    /\ <<ca, cb>> # <<v["clkA"], v["clkB"]>>
    /\ v' = Apply([s \in {"clkA", "clkB"} |-> IF s = "clkA" THEN ca ELSE cb])
    /\ ev' = <<"clk", ca, cb>> /\ n' = n + 1 /\ UNCHANGED cfg
(* input events never coincide with clock edges (a testbench race in the simulator, unspecified) *)
InputEvent(s, x) ==
    /\ n < MaxEvents
    /\ v[s] # x
    /\ s = "rstA" => cfg.A.rst # "none"
    /\ s = "rstB" => cfg.B.rst # "none"
    /\ v' = Apply([t \in {s} |-> x])
    /\ ev' = <<"set", s, x>> /\ n' = n + 1 /\ UNCHANGED cfg

Next == \/ \E ca \in 0..1, cb \in 0..1 : ClockEvent(ca, cb)
        \/ \E s \in {"rstA", "rstB", "c1", "c2", "d"}, x \in 0..1 : InputEvent(s, x)
Spec == Init /\ [][Next]_vars

(* -------------------------------- properties -------------------------------- *)
(* a register changes only at the active edge of its own (final) domain or when its async reset rises *)
ChangeOnlyAtOwnEdge ==
    [][\A r \in Regs : v'[r] # v[r] =>
          \/ ActiveEdge(FinalDom(r), v, v')
          \/ (DomCfg(FinalDom(r)).rst = "async" /\ v[Rst(FinalDom(r))] = 0 /\ v'[Rst(FinalDom(r))] = 1)]_vars
(* reset-less registers never return to their initial value because of a reset: they only ever load d *)
ResetLessIgnoresResets ==
    [][v'["r2"] # v["r2"] => v'["r2"] = v["d"]]_vars
(* memory state is never reset: the row only ever takes d, the read port only ever takes the row *)
MemoryIgnoresResets ==
    [][/\ v'["mw"] # v["mw"] => v'["mw"] = v["d"]
       /\ v'["mr"] # v["mr"] => v'["mr"] = v["mw"]
       /\ v'["mt"] # v["mt"] => v'["mt"] = v["d"]]_vars
(* r3 is outside the wrapped subtree: no inserted control ever affects it *)
OutsideUnaffected ==
    [][ActiveEdge("A", v, v') => v'["r3"] = (IF cfg.A.rst # "none" /\ v["rstA"] = 1 THEN 1 ELSE v["d"])]_vars
=============================================================================
