------------------------------ MODULE FifoTrace ------------------------------
(* Trace validation for amaranth.lib.fifo: every execution recorded from the real SyncFIFO,   *)
(* SyncFIFOBuffered, AsyncFIFO, AsyncFIFOBuffered (harness/props/c12.py, c13.py) must be a     *)
(* behaviour of the abstract queue Fifo under the observation rules of FifoObs.                *)
(* A batch of traces is read from the JSON file named by the environment variable TRACE_FILE;  *)
(* each trace is validated in its own behaviour (tid chosen in Init).  The verdict is total:   *)
(* every trace ends by printing <<"ACC", tid, steps, live>> or <<"REJ", tid, step, clause>>     *)
(* (live = number of positions at which the bounded-liveness clause of the asynchronous        *)
(* variants was actually exercised: an entry held, k edges of each clock after the last write). *)
(*                                                                                             *)
(* trace = [variant |-> "sync"|"buffered"|"async"|"asyncbuf", depth |-> n, k |-> liveness K,   *)
(*          steps |-> << <<wedge, redge, w_en, w_data, r_en,                                   *)
(*                        w_rdy, r_rdy, r_data, level, r_level, w_level>>, ... >>]             *)
(* Outputs are sampled immediately before the event; the event is one simultaneous set of      *)
(* clock edges (sync variants: wedge = redge = 1 always).                                      *)
EXTENDS FifoObs, Json, IOUtils, TLC, TLCExt

Batch == JsonDeserialize(IOEnv.TRACE_FILE)
Traces == Batch.traces

VARIABLES tid, i, q, wait, sinceW, sinceR, live, verdict
vars == <<tid, i, q, wait, sinceW, sinceR, live, verdict>>

T == Traces[tid]
IsSync == T.variant \in {"sync", "buffered"}
Slack == IF T.variant = "buffered" THEN 2 ELSE 1

Obs(s) == [w_rdy |-> s[6] = 1, r_rdy |-> s[7] = 1, r_data |-> s[8],
           level |-> s[9], r_level |-> s[10], w_level |-> s[11]]

Clause(s, o, w) ==
    IF IsSync THEN
        LET c == SyncClause(T.depth, Slack, q, o) IN
        IF c # "" THEN c ELSE IF w > MaxSyncWait THEN "head_unreadable_for_more_than_two_cycles" ELSE ""
    ELSE
        LET c == AsyncClause(T.depth, q, o) IN
        IF c # "" THEN c
        ELSE IF Len(q) > 0 /\ ~o.r_rdy /\ sinceW >= T.k /\ sinceR >= T.k
             THEN "entry_not_readable_K_edges_after_last_write" ELSE ""

Init == /\ tid \in 1..Len(Traces) /\ i = 1 /\ q = <<>> /\ wait = 0
        /\ sinceW = 0 /\ sinceR = 0 /\ live = 0 /\ verdict = ""

Step ==
    /\ verdict = "" /\ i <= Len(T.steps)
    /\ LET s  == T.steps[i]
           o  == Obs(s)
           w  == WaitNext(wait, q, o)
           c  == Clause(s, o, w)
           dw == s[1] = 1 /\ s[3] = 1 /\ o.w_rdy
           dr == s[2] = 1 /\ s[5] = 1 /\ o.r_rdy
           q1 == IF dr /\ Len(q) > 0 THEN Tail(q) ELSE q
       IN IF c # ""
          THEN /\ verdict' = c /\ PrintT(<<"REJ", tid, i, c>>)
               /\ UNCHANGED <<i, q, wait, sinceW, sinceR, live, tid>>
          ELSE /\ q' = IF dw THEN Append(q1, s[4]) ELSE q1
               /\ wait' = w
               /\ sinceW' = IF dw THEN 0 ELSE IF s[1] = 1 /\ sinceW < 1000 THEN sinceW + 1 ELSE sinceW
               /\ sinceR' = IF dw THEN 0 ELSE IF s[2] = 1 /\ sinceR < 1000 THEN sinceR + 1 ELSE sinceR
               /\ live' = IF ~IsSync /\ T.k > 0 /\ Len(q) > 0 /\ sinceW >= T.k /\ sinceR >= T.k
                          THEN live + 1 ELSE live
               /\ i' = i + 1
               /\ UNCHANGED <<tid, verdict>>

Finish ==
    /\ verdict = "" /\ i = Len(T.steps) + 1
    /\ verdict' = "ACC" /\ PrintT(<<"ACC", tid, Len(T.steps), live>>)
    /\ UNCHANGED <<tid, i, q, wait, sinceW, sinceR, live>>

Next == Step \/ Finish
Spec == Init /\ [][Next]_vars

(* invariants evaluated at every position of every real execution *)
Bounded == Len(q) <= T.depth
=============================================================================
