------------------------------ MODULE MC_IoUse ------------------------------
(* Enumeration plans for IoUse (records cannot be written in a .cfg file). *)
EXTENDS IoUse
Plan(ws, nb, bd, np, ms) == [widths |-> ws, nbufs |-> nb, bdirs |-> bd, npads |-> np, maxseg |-> ms]
PlansQuick == {Plan({1, 2, 3}, {1, 2}, Dirs, 1, 1),          \* one or two buffers, every pair of slices and directions
               Plan({3}, {3}, {"o"}, 1, 1),                   \* three buffers
               Plan({2}, {1}, Dirs, 2, 2)}                    \* one buffer whose port is a sum of two slices (two pads)
PlansThorough == {Plan({1, 2, 3, 4}, {1, 2}, Dirs, 1, 1),
                  Plan({2, 3}, {3}, {"i", "o"}, 1, 1),
                  Plan({4}, {3}, {"io"}, 1, 1),
                  Plan({1, 2, 3}, {1}, Dirs, 2, 2),
                  Plan({2}, {2}, {"i", "o"}, 1, 2)}
PlansMutant == {Plan({2}, {2}, Dirs, 1, 1)}
=============================================================================
