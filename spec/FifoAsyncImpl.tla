--------------------------- MODULE FifoAsyncImpl ---------------------------
(* Implementation-structured models of AsyncFIFO and AsyncFIFOBuffered (property C13).          *)
(*                                                                                             *)
(* AsyncFIFO is the "style #2" queue of Cummings' "Simulation and Synthesis Techniques for      *)
(* Asynchronous FIFO Design": each side owns a binary counter of log2(N)+1 bits and its Gray    *)
(* encoded copy (registered from the *next* binary value); each Gray pointer crosses into the   *)
(* other clock domain through a two-flop synchroniser; full (write side) and empty (read side)  *)
(* are computed from the local Gray pointer and the synchronised remote one; w_level is a       *)
(* register fed by the binary difference, r_level the combinational binary difference; the      *)
(* memory has a synchronous, always enabled read port addressed by the next consume pointer.    *)
(* The read domain is reset through an asynchronously-set, synchronously-released two-flop      *)
(* synchroniser of the write-domain reset whose flops power up set (so the read side is held    *)
(* in reset for its first two edges).                                                          *)
(* AsyncFIFOBuffered is an AsyncFIFO of depth-1 followed by an output register that is          *)
(* reloaded whenever it is empty or being read; its r_level is a register, its w_level adds a   *)
(* four-flop synchronised copy of "the output register stays occupied".                         *)
(*                                                                                             *)
(* The two clocks are independent: a step is one clock *event* -- a write-clock edge, a read-   *)
(* clock edge, or both at once (every register then samples pre-event values) -- with inputs    *)
(* (w_en, w_data, r_en) chosen freely.  The ghost q is the abstract queue of accepted writes    *)
(* not yet read.  TLC checks, over the full reachable graph, that every state presents outputs  *)
(* the contract FifoObs!AsyncClause allows, plus bounded-response liveness and (with bounded    *)
(* histories) order / nothing lost.                                                            *)
EXTENDS FifoObs, SequencesExt, TLC

CONSTANTS Depth,      \* depth of the whole queue (async: 2^n >= 2; asyncbuf: 2^n + 1 >= 3)
          Data,       \* data values
          Variant,    \* "async" | "asyncbuf"
          MaxHist,    \* 0: histories off (full graph); n: win/rout recorded, Len(win) <= n
          K,          \* 0: liveness counters off; k: entry readable k edges of each clock after the last write
          Reset,      \* TRUE: the write-domain reset may be pulsed (environment assumption below)
          Mutant,     \* "" or the name of a seeded design error
          ShowDepths  \* TRUE: print the documented depth-rounding table (used by the constructor sweep)

ASSUME Variant \in {"async", "asyncbuf"}
Buf  == Variant = "asyncbuf"
N    == IF Buf THEN Depth - 1 ELSE Depth            \* rows of the memory
ASSUME N >= 2 /\ AsyncDepth(N) = N
Bits == CeilLog2(N) + 1                             \* counter width
M    == 2 * N                                       \* counter modulus; also 2^(width of the level outputs)
D0   == CHOOSE d \in Data : \A e \in Data : d <= e

(* ---- documented rounding of the constructor argument (FifoObs), printed for the sweep ---- *)
DepthTable == [v \in {"async", "asyncbuf"} |->
                 [d \in 0..17 |-> LET e == IF v = "async" THEN AsyncDepth(d) ELSE AsyncBufDepth(d)
                                  IN <<e, e = d>>]]     \* <<effective depth, accepted with exact_depth>>
ASSUME ShowDepths => PrintT(<<"DEPTHS", DepthTable>>)

(* ---- bit vectors as naturals ---- *)
RECURSIVE Xor(_, _)
Xor(a, b) == IF a = 0 THEN b ELSE IF b = 0 THEN a
             ELSE (((a % 2) + (b % 2)) % 2) + 2 * Xor(a \div 2, b \div 2)
RECURSIVE GrayDecode(_)
GrayDecode(g) == IF g = 0 THEN 0 ELSE Xor(g, GrayDecode(g \div 2))
GEnc == [n \in 0..(M - 1) |-> Xor(n, n \div 2)]
GDec == [g \in 0..(M - 1) |-> GrayDecode(g)]
ASSUME \A n \in 0..(M - 1) : GDec[GEnc[n]] = n
Bit(v, i) == (v \div (2 ^ i)) % 2
Low(v, n) == v % (2 ^ n)

VARIABLES
    \* write domain
    pwbin, pwgry,          \* produce pointer, binary and Gray
    cw0, cw1,              \* synchroniser: consume Gray pointer seen from the write domain
    cwbin,                 \* registered binary decode of cw1
    wlevel,                \* registered level
    wcb,                   \* buffered: 4-flop synchroniser of "output register stays occupied"
    wrst,                  \* write-domain reset input (level), Reset only
    mem,
    \* read domain
    crbin, crgry,          \* consume pointer, binary and Gray
    pr0, pr1,              \* synchroniser: produce Gray pointer seen from the read domain
    rport,                 \* registered output of the memory read port
    rst,                   \* <<stage0, stage1>> of the reset synchroniser; r_rst = stage1
    brdy, bdata, brlevel,  \* buffered: output register valid / data, registered r_level
    \* ghosts
    q, win, rout, sw, sr, held, obs
vars == <<pwbin, pwgry, cw0, cw1, cwbin, wlevel, wcb, wrst, mem, crbin, crgry, pr0, pr1, rport, rst,
          brdy, bdata, brlevel, q, win, rout, sw, sr, held, obs>>
wvars == <<pwbin, pwgry, cw0, cw1, cwbin, wlevel, wcb, mem>>
rvars == <<crbin, crgry, pr0, pr1, rport, brdy, bdata, brlevel>>

(* ---- outputs as functions of the registers ---- *)
WFull == IF Mutant = "full_binary_style"        \* seeded error: MSB differs, rest equal -- on Gray pointers
         THEN Bit(pwgry, Bits - 1) # Bit(cw1, Bits - 1) /\ Low(pwgry, Bits - 1) = Low(cw1, Bits - 1)
         ELSE /\ Bit(pwgry, Bits - 1) # Bit(cw1, Bits - 1)
              /\ Bit(pwgry, Bits - 2) # Bit(cw1, Bits - 2)
              /\ Low(pwgry, Bits - 2) = Low(cw1, Bits - 2)
RRst     == rst[2]
REmpty   == RRst \/ crgry = (IF Mutant = "sync_bypassed_r" THEN pwgry ELSE pr1)
RLevIn   == (GDec[pr1] + M - crbin) % M
Out == [w_rdy   |-> ~WFull,
        r_rdy   |-> IF Buf THEN brdy ELSE ~REmpty,
        r_data  |-> IF Buf THEN bdata ELSE rport,
        level   |-> -1,
        r_level |-> IF Buf THEN brlevel ELSE RLevIn,
        w_level |-> IF Buf THEN (wlevel + B2N(wcb[4])) % M ELSE wlevel]

Init == /\ pwbin = 0 /\ pwgry = 0 /\ cw0 = 0 /\ cw1 = 0 /\ cwbin = 0 /\ wlevel = 0
        /\ wcb = <<FALSE, FALSE, FALSE, FALSE>> /\ wrst = FALSE
        /\ mem = [a \in 0..(N - 1) |-> D0]
        /\ crbin = 0 /\ crgry = 0 /\ pr0 = 0 /\ pr1 = 0 /\ rport = D0
        /\ rst = <<TRUE, TRUE>>
        /\ brdy = FALSE /\ bdata = D0 /\ brlevel = 0
        /\ q = <<>> /\ win = <<>> /\ rout = <<>> /\ sw = 0 /\ sr = 0 /\ held = 0
        /\ obs = Out

(* ---- register updates of one domain, all reading the pre-event state ---- *)
WPart(w_en, w_data, r_en) ==
    LET dw  == w_en /\ ~WFull
        nxt == (pwbin + B2N(dw)) % M
    IN /\ pwbin'  = IF wrst THEN 0 ELSE nxt
       /\ pwgry'  = IF wrst THEN 0 ELSE IF Mutant = "gray_lag" THEN GEnc[pwbin] ELSE GEnc[nxt]
       /\ cw0'    = crgry                      \* synchroniser flops are not reset
       /\ cw1'    = cw0
       /\ cwbin'  = IF wrst THEN 0 ELSE GDec[cw1]
       /\ wlevel' = IF wrst THEN 0 ELSE (pwbin + M - cwbin) % M
       /\ mem'    = IF dw THEN [mem EXCEPT ![pwbin % N] = w_data] ELSE mem
       /\ wcb'    = IF Buf THEN <<brdy /\ ~r_en, wcb[1], wcb[2], wcb[3]>> ELSE wcb

RPart(r_en) ==
    LET ren  == IF Buf THEN (r_en \/ ~brdy) ELSE r_en      \* strobe seen by the inner queue
        dr   == ren /\ ~REmpty
        nxt  == (crbin + B2N(dr)) % M
        addr == IF Mutant = "raddr_bin" THEN crbin ELSE nxt
    IN /\ crbin' = IF RRst THEN GDec[pr1] ELSE nxt
       /\ crgry' = IF RRst THEN pr1 ELSE GEnc[nxt]
       /\ pr0'   = pwgry
       /\ pr1'   = pr0
       /\ rport' = mem[addr % N]               \* not transparent: the row as it was before the event
       /\ IF Buf /\ (ren \/ Mutant = "buf_always_load")
          THEN bdata' = rport /\ brdy' = ~REmpty
          ELSE UNCHANGED <<bdata, brdy>>
       /\ brlevel' = IF Buf THEN (RLevIn + B2N(brdy /\ ~r_en)) % M ELSE brlevel

(* reset synchroniser: set asynchronously while the write-domain reset is high, shifts in 0 at  *)
(* read-clock edges otherwise                                                                  *)
RstNext(redge, wr) == IF wr THEN <<TRUE, TRUE>> ELSE IF redge THEN <<FALSE, rst[1]>> ELSE rst

(* ---- ghosts ---- *)
Ghost(wedge, redge, w_en, w_data, r_en) ==
    LET dw == wedge /\ DoW(Out, w_en) /\ ~wrst
        dr == redge /\ DoR(Out, r_en)
        q1 == IF dr /\ Len(q) > 0 THEN Tail(q) ELSE q
    IN /\ q'    = IF wedge /\ wrst THEN <<>> ELSE IF dw THEN Append(q1, w_data) ELSE q1
       /\ win'  = IF MaxHist > 0 /\ dw THEN Append(win, w_data) ELSE win
       /\ rout' = IF MaxHist > 0 /\ dr THEN Append(rout, Out.r_data) ELSE rout
       /\ sw'   = IF K = 0 \/ dw THEN 0 ELSE IF wedge /\ sw < K THEN sw + 1 ELSE sw
       /\ sr'   = IF K = 0 \/ dw THEN 0 ELSE IF redge /\ sr < K THEN sr + 1 ELSE sr

Event(wedge, redge, w_en, w_data, r_en) ==
    /\ ~wrst                                   \* ordinary operation: reset released
    /\ IF wedge THEN WPart(w_en, w_data, r_en) ELSE UNCHANGED wvars
    /\ IF redge THEN RPart(r_en) ELSE UNCHANGED rvars
    /\ rst' = RstNext(redge, FALSE)
    /\ Ghost(wedge, redge, w_en, w_data, r_en)
    /\ UNCHANGED <<wrst, held>>
    /\ obs' = Out'

(* (written as one-element conjunction lists so that TLC reports the three actions separately) *)
WEdge(w_en, w_data, r_en)     == /\ Event(TRUE, FALSE, w_en, w_data, r_en)
REdge(w_en, w_data, r_en)     == /\ Event(FALSE, TRUE, w_en, w_data, r_en)
BothEdges(w_en, w_data, r_en) == /\ Event(TRUE, TRUE, w_en, w_data, r_en)

(* ---- write-domain reset (Reset = TRUE only) ------------------------------------------------ *)
(* Environment assumption (the documentation gives no figure): the reset is asserted between    *)
(* events, stays high for at least one write-clock edge and, after that edge, for at least      *)
(* HoldR read-clock edges, so that the zeroed produce pointer has crossed the synchroniser      *)
(* before the read side is released.  `held` counts: 0 idle, 1 asserted (no write edge yet),    *)
(* 2.. = 2 + read edges seen since the write edge.                                              *)
HoldR == 3
RstAssert == /\ Reset /\ ~wrst
             /\ wrst' = TRUE /\ held' = 1
             /\ rst' = <<TRUE, TRUE>>
             /\ UNCHANGED <<q, win, rout, sw, sr>>
             /\ UNCHANGED wvars /\ UNCHANGED rvars
             /\ obs' = Out'
RstEvent(wedge, redge, r_en) ==
    /\ wrst /\ (wedge \/ redge)
    /\ IF wedge THEN WPart(FALSE, D0, r_en) ELSE UNCHANGED wvars
    /\ IF redge THEN RPart(r_en) ELSE UNCHANGED rvars
    /\ rst' = <<TRUE, TRUE>>
    /\ held' = IF held = 1 THEN (IF wedge THEN 2 ELSE 1)
               ELSE IF redge /\ held < 2 + HoldR THEN held + 1 ELSE held
    /\ Ghost(wedge, redge, FALSE, D0, r_en)
    /\ UNCHANGED wrst
    /\ obs' = Out'
RstRelease == /\ wrst /\ held >= 2 + HoldR
              /\ wrst' = FALSE /\ held' = 0
              /\ UNCHANGED <<q, win, rout, sw, sr, rst>>
              /\ UNCHANGED wvars /\ UNCHANGED rvars
              /\ obs' = Out'

Next == \/ \E w_en \in BOOLEAN, w_data \in Data, r_en \in BOOLEAN :
              \/ WEdge(w_en, w_data, r_en)
              \/ REdge(w_en, w_data, r_en)
              \/ BothEdges(w_en, w_data, r_en)
        \/ RstAssert \/ RstRelease
        \/ \E wedge \in BOOLEAN, redge \in BOOLEAN, r_en \in BOOLEAN : RstEvent(wedge, redge, r_en)
Spec == Init /\ [][Next]_vars

----------------------------------------------------------------------------
(* the contract, evaluated in every reachable state *)
Clause      == AsyncClause(Depth, q, Out)
ObsAllowed  == Clause = ""
(* with the write-domain reset in play only the data clauses are claimed (the level outputs are   *)
(* transiently meaningless while the pointers are being re-synchronised)                        *)
ResetSafe   == SafetyClause(Depth, q, Out) = ""
(* bounded response: K edges of each clock after the last accepted write, a held entry is readable *)
ReadLive    == (K > 0 /\ Len(q) > 0 /\ sw >= K /\ sr >= K) => Out.r_rdy
FifoOrder   == IsPrefix(rout, win)
NothingLost == (MaxHist > 0 /\ ~Reset) => win = rout \o q
ObsIsOut    == obs = Out

(* structure: the registered Gray pointers encode the binary ones; refinement mapping *)
GrayRegs == Mutant = "" => (pwgry = GEnc[pwbin] /\ crgry = GEnc[crbin])
RECURSIVE Rows(_, _)
Rows(c, n) == IF n = 0 THEN <<>> ELSE <<mem[c % N]>> \o Rows(c + 1, n - 1)
Mapping == (Mutant = "" /\ ~wrst /\ ~RRst) =>
              q = (IF Buf /\ brdy THEN <<bdata>> ELSE <<>>) \o Rows(crbin, (pwbin + M - crbin) % M)
(* the pointer a side sees of the other one never overtakes the real one (conservative flags) *)
Conservative == (Mutant = "" /\ ~wrst /\ ~RRst) =>
                   /\ (GDec[pr1] + M - crbin) % M <= (pwbin + M - crbin) % M
                   /\ (pwbin + M - GDec[cw1]) % M >= (pwbin + M - crbin) % M
                   /\ (pwbin + M - crbin) % M <= N

Constr == MaxHist > 0 => Len(win) <= MaxHist
=============================================================================
