------------------------------- MODULE Wiring -------------------------------
(* Interface signatures, flipping, flattening, compliance and connect() of amaranth.lib.wiring,   *)
(* written from docs/stdlib/wiring.rst and the class/function documentation.                      *)
(*                                                                                                *)
(* A signature EXPRESSION (what the user writes) is  [fl, ms]:  ms a sequence of members, fl TRUE *)
(* when `.flip()` is applied to it.  A member is                                                  *)
(*    [name, flow \in {"In","Out"}, dims (sequence of naturals, most major first),                *)
(*     kind = "port": w, s (width, signedness), init;   kind = "sig": sub (a signature expression)]*)
(* plus nm (naming) and id:  nm = "anon": `Signature({...})`, compared structurally;               *)
(*   nm = "ident": an instance of a Signature subclass without __eq__, compared by identity -- id   *)
(*   names the object, two nodes with the same id are THE SAME signature object;                   *)
(*   nm = "struct": an instance of a subclass with a structural __eq__ (class parameter id).       *)
(* A SIGNATURE (value) is the node [nm, id, fl, ms] obtained by Norm(x): for an anonymous node    *)
(* every `.flip()` is evaluated into the members' flows (fl = FALSE); a named node keeps the       *)
(* object's own members in ms and fl says whether it is seen through the flipping proxy.  With    *)
(* this representation `==` of the library is plain equality of the values (see Equality below).  *)
(*                                                                                                *)
(* The module is a BUILDER state machine: the reachable states with a closed stack enumerate all  *)
(* signature trees within the bounds; every such state carries (variable exp) the values the real *)
(* library must produce for that tree (flatten, compliance, connect outcomes, ...).  They are     *)
(* dumped with `-dump` and replayed on the real code by harness/props/c14.py.                     *)
EXTENDS Integers, Sequences, FiniteSets, TLC

CONSTANTS MaxDepth,      \* nesting depth of signatures (1 = ports only)
          MaxPerLevel,   \* members per signature (<= 3)
          MaxMembers,    \* members in the whole tree (ports + sub-signatures)
          PortDims, SubDims,   \* sets of dimension tuples
          PortAttrs,     \* set of [w, s, init]
          AggAttrs,      \* set of <<aggregate shape, how its initial value is given>> for shape-castable ports
          SubFlips,      \* subset of BOOLEAN: sub-signature descriptions written as X / X.flip()
          Variants,      \* BOOLEAN: also compute all single-point corruptions
          Triples,       \* BOOLEAN: corruptions of the 3-tuple <<S,F,F>> as well
          Quiet,         \* BOOLEAN: also compute the tuples with a leaf that no argument drives
          Swaps,         \* BOOLEAN: also compute the objects with one sub-interface swapped for its flip
          RootNm, SubNm, \* sets of namings for the top-level signature / for sub-signatures
          Mutant         \* "" or a seeded specification error (must violate a theorem)

(* values for the cfg file (cfg syntax has no tuples / records) *)
DimsAll   == {<<>>, <<2>>, <<2, 1>>}
DimsTwo   == {<<>>, <<2>>}
DimsNone  == {<<>>}
U1(i) == [w |-> 1, s |-> FALSE, init |-> i]
U2(i) == [w |-> 2, s |-> FALSE, init |-> i]
S2(i) == [w |-> 2, s |-> TRUE,  init |-> i]
AttrsAll  == {U1(0), U1(1), U2(0), U2(1), S2(0), S2(1)}
AttrsFew  == {U1(0), S2(1)}
AttrsOne  == {U2(1)}
AttrsNone == {}
FlipsBoth == BOOLEAN
FlipsNo   == {FALSE}
NmAnon    == {"anon"}
NmNamed   == {"ident", "struct"}
NmAll     == {"anon", "ident", "struct"}

(* ---- ports whose shape is a shape-castable aggregate (lib.data layouts / Struct classes,    *)
(* shaped enumerations).  The port is as wide as the aggregate, unsigned, and its initial value  *)
(* -- what the created Signal powers up with, what is_compliant / connect compare and what the   *)
(* component metadata must list -- is the bit pattern of the aggregate's constant:               *)
(*   Layout.const(init): "a view with this layout that was initialized with an all-zero value    *)
(*   and had every field assigned to the corresponding value ... in init";  for a data.Struct    *)
(*   class "the values assigned to [the] annotations are used to populate the initial value",    *)
(*   an explicit init overriding them field by field;  init = None: the shape's own default.     *)
(* types: Sc(w, signed)  En(w)  St(fields <<[n, t, d (class default)]>>, is it a Struct class)  Ar(t, n) *)
(* values: Zero, IntV(v), MapV(name :> value), SeqV(<<values>>)                                   *)
Zero == [k |-> "zero"]
IntV(v) == [k |-> "int", v |-> v]
MapV(m) == [k |-> "map", m |-> m]
SeqV(q) == [k |-> "seq", q |-> q]
Sc(w, sg) == [k |-> "sc", w |-> w, sg |-> sg]
En(w) == [k |-> "en", w |-> w]
St(fs, cls) == [k |-> "st", fs |-> fs, cls |-> cls]
Ar(t, n) == [k |-> "ar", t |-> t, n |-> n]
Fd(n, t, d) == [n |-> n, t |-> t, d |-> d]
RECURSIVE SumF(_, _)
SumF(f, n) == IF n = 0 THEN 0 ELSE f[n] + SumF(f, n - 1)
RECURSIVE TWidth(_)
TWidth(t) == CASE t.k \in {"sc", "en"} -> t.w
               [] t.k = "st" -> SumF([i \in DOMAIN t.fs |-> TWidth(t.fs[i].t)], Len(t.fs))
               [] t.k = "ar" -> t.n * TWidth(t.t)
FOffset(t, i) == SumF([j \in DOMAIN t.fs |-> TWidth(t.fs[j].t)], i - 1)
RECURSIVE Pat(_, _)
Pat(t, v) ==       \* bit pattern of the constant of type t given by v; unmentioned fields are zero
    IF v.k = "zero" THEN 0
    ELSE CASE t.k \in {"sc", "en"} -> (v.v + 4 * (2 ^ t.w)) % (2 ^ t.w)
           [] t.k = "st" -> SumF([i \in DOMAIN t.fs |-> (2 ^ FOffset(t, i)) *
                                   Pat(t.fs[i].t, IF t.fs[i].n \in DOMAIN v.m THEN v.m[t.fs[i].n] ELSE Zero)], Len(t.fs))
           [] t.k = "ar" -> SumF([i \in 1..t.n |-> (2 ^ ((i - 1) * TWidth(t.t))) *
                                   Pat(t.t, IF i \in DOMAIN v.q THEN v.q[i] ELSE Zero)], t.n)
(* the value of Const(init, shape): class defaults, overridden by the given fields *)
ClassDefaults(t) == [n \in {t.fs[i].n : i \in {j \in DOMAIN t.fs : t.fs[j].d.k # "zero"}} |->
                       (CHOOSE f \in {t.fs[i] : i \in DOMAIN t.fs} : f.n = n).d]
InitValue(t, given) ==
    IF t.k = "st" /\ t.cls
    THEN LET d == ClassDefaults(t)
             g == IF given.k = "map" THEN given.m ELSE <<>> IN
         MapV([n \in DOMAIN d \cup DOMAIN g |-> IF n \in DOMAIN g THEN g[n] ELSE d[n]])
    ELSE given
(* the catalogue (mirrored by AGG in harness/props/c14.py) *)
AggT(g) == CASE g = "slayout" -> St(<<Fd("a", Sc(2, FALSE), Zero), Fd("b", Sc(3, TRUE), Zero)>>, FALSE)
             [] g = "sclass"  -> St(<<Fd("a", Sc(2, FALSE), IntV(3)), Fd("b", Sc(3, TRUE), IntV(-1))>>, TRUE)
             [] g = "arr"     -> Ar(Sc(2, FALSE), 3)
             [] g = "nest"    -> St(<<Fd("x", Ar(Sc(1, FALSE), 2), Zero),
                                      Fd("y", St(<<Fd("a", Sc(2, FALSE), Zero)>>, FALSE), Zero)>>, FALSE)
             [] g = "enum"    -> En(2)
AggGiven(g, ini) ==      \* ini: "none" (init=None), "dict" (mapping / sequence / enum member A), "const" (a constant object)
    IF ini = "none" THEN Zero
    ELSE CASE g = "slayout" -> MapV(("a" :> IntV(1)) @@ ("b" :> IntV(-2)))
           [] g = "sclass"  -> MapV("b" :> IntV(2))
           [] g = "arr"     -> SeqV(<<IntV(1), IntV(2), IntV(3)>>)
           [] g = "nest"    -> MapV(("x" :> SeqV(<<IntV(1), IntV(0)>>)) @@ ("y" :> MapV("a" :> IntV(2))))
           [] g = "enum"    -> IF ini = "dict" THEN IntV(1) ELSE IntV(2)    \* members B = 2 (first), A = 1
AggInit(a) == Pat(AggT(a[1]), InitValue(AggT(a[1]), AggGiven(a[1], a[2])))
AggAll  == {<<"slayout", "none">>, <<"slayout", "dict">>, <<"slayout", "const">>,
            <<"sclass", "none">>, <<"sclass", "dict">>, <<"sclass", "const">>,
            <<"arr", "none">>, <<"arr", "dict">>, <<"nest", "dict">>, <<"nest", "const">>,
            <<"enum", "dict">>, <<"enum", "const">>}
AggFew  == {<<"sclass", "none">>, <<"sclass", "dict">>, <<"slayout", "const">>, <<"arr", "dict">>, <<"enum", "const">>}
AggNone == {}

VARIABLES stack,   \* frames [flow, dims, fl, ms]; stack[1] is the signature under construction
          exp      \* expected observations for the tree when the stack is closed
vars == <<stack, exp>>

----------------------------------------------------------------------------
(* generic helpers *)
Range(f) == {f[i] : i \in DOMAIN f}
B(b) == IF b THEN 1 ELSE 0
RECURSIVE ConcatAll(_)
ConcatAll(ss) == IF ss = <<>> THEN <<>> ELSE Head(ss) \o ConcatAll(Tail(ss))
RECURSIVE Prod(_)
Prod(ds) == IF ds = <<>> THEN 1 ELSE Head(ds) * Prod(Tail(ds))
RECURSIVE SumSeq(_)
SumSeq(ns) == IF ns = <<>> THEN 0 ELSE Head(ns) + SumSeq(Tail(ns))

FlipFlow(f) == IF f = "In" THEN "Out" ELSE "In"

(* index tuples of an array member, in indexing order; indices are written as strings so that a *)
(* path is a homogeneous sequence:  <<"p", "1", "0", "a">>  is  obj.p[1][0].a                   *)
RECURSIVE IdxSeq(_)
IdxSeq(dims) ==
    IF dims = <<>> THEN << <<>> >>
    ELSE LET rest == IdxSeq(Tail(dims)) IN
         ConcatAll([i \in 1..Head(dims) |-> [j \in DOMAIN rest |-> <<ToString(i - 1)>> \o rest[j]]])

----------------------------------------------------------------------------
(* Flipping.  "The flip operation changes the In data flow of a member to Out and vice versa",  *)
(* "leaving everything else about the object intact" (Member.flip: identical other than flow).  *)
FlipMs(ms) == [i \in DOMAIN ms |-> [ms[i] EXCEPT !.flow = FlipFlow(@)]]

RECURSIVE Norm(_)
Norm(x) == LET ms0 == [i \in DOMAIN x.ms |->
                         IF x.ms[i].kind = "sig" THEN [x.ms[i] EXCEPT !.sub = Norm(@)]
                         ELSE [x.ms[i] EXCEPT !.sub = <<>>]]
           IN IF x.nm = "anon"
              THEN [nm |-> "anon", id |-> 0, fl |-> FALSE, ms |-> IF x.fl THEN FlipMs(ms0) ELSE ms0]
              ELSE [nm |-> x.nm, id |-> x.id, fl |-> x.fl, ms |-> ms0]

(* sig.members: the members as seen through the signature (flipped for a flipped named one)       *)
Mem(sig) == IF sig.fl THEN FlipMs(sig.ms) ELSE sig.ms
(* sig.flip().  Mutant "named_flip_is_noop": flipping a named signature yields an equal value.   *)
Flip(sig) == IF sig.nm = "anon" THEN [sig EXCEPT !.ms = FlipMs(@)]
             ELSE IF Mutant = "named_flip_is_noop" THEN sig
             ELSE [sig EXCEPT !.fl = ~@]

(* Equality (Signature.__eq__): "If both are instances of the base Signature class, they are     *)
(* compared structurally (self.members == other.members); otherwise they are compared by          *)
(* identity"; a subclass may define its own (here: same class parameter and equal members).       *)
(* A flipped signature equals only a flipped one, whose unflipped signatures are equal -- except  *)
(* for anonymous ones, where the flipped members are compared.  Members are equal when flow,      *)
(* description, initial value and dimensions are.  All of this is `=` on the values:             *)
(*   anon: equal members (flips already evaluated);  ident: same id (hence same members) and     *)
(*   same fl;  struct: same id, same fl, equal members;  different namings are never equal.      *)

(* Member.signature: "In(...) used with a signature rather than a shape" flips that signature.   *)
MemberSig(m) == IF m.flow = "In" /\ ~(Mutant = "no_flip_into_dimensioned_sub" /\ m.dims # <<>>)
                THEN Flip(m.sub) ELSE m.sub

(* Signature.flatten: one entry per port and per array index, with the flow as seen from the    *)
(* top-level interface.                                                                         *)
RECURSIVE Flatten(_, _)
Flatten(sig, path) ==
    ConcatAll([i \in DOMAIN sig.ms |->
        LET m == Mem(sig)[i]
            ix == IdxSeq(m.dims) IN
        ConcatAll([k \in DOMAIN ix |->
            LET p == path \o <<m.name>> \o ix[k] IN
            IF m.kind = "port"
            THEN << [path |-> p, flow |-> m.flow, w |-> m.w, s |-> m.s, init |-> m.init] >>
            ELSE Flatten(MemberSig(m), p)])])
Leaves(sig) == Range(Flatten(sig, <<>>))

RECURSIVE NumLeaves(_)
NumLeaves(sig) == SumSeq([i \in DOMAIN sig.ms |->
                    Prod(sig.ms[i].dims) * (IF sig.ms[i].kind = "port" THEN 1 ELSE NumLeaves(sig.ms[i].sub))])

(* Effective direction, stated as in the guide: "the final port direction is determined by how  *)
(* many nested In(...) members there are. For each In(...) signature wrapping a port, the data  *)
(* flow direction of the port is flipped once" -- and once more for every explicit .flip().     *)
(* Defined on the expression, independently of Norm / MemberSig / Flatten.                      *)
RECURSIVE Reversals(_, _)
Reversals(x, path) ==
    LET m == CHOOSE m \in Range(x.ms) : m.name = Head(path)
        rest == SubSeq(path, 2 + Len(m.dims), Len(path)) IN
    B(x.fl) + (IF m.kind = "port" THEN 0 ELSE B(m.flow = "In") + Reversals(m.sub, rest))
RECURSIVE DeclaredFlow(_, _)
DeclaredFlow(x, path) ==
    LET m == CHOOSE m \in Range(x.ms) : m.name = Head(path)
        rest == SubSeq(path, 2 + Len(m.dims), Len(path)) IN
    IF m.kind = "port" THEN m.flow ELSE DeclaredFlow(m.sub, rest)
EffDir(x, path) == IF Reversals(x, path) % 2 = 0 THEN DeclaredFlow(x, path)
                   ELSE FlipFlow(DeclaredFlow(x, path))

(* Sub-interfaces of an interface created from sig: for every signature member and index, the   *)
(* object found there is an interface whose signature is MemberSig(m); `plain`/`flip` say how    *)
(* that signature compares (==) with the member's declared description and with its flip.       *)
(* In particular, through a flipped interface a dimensioned member is a (nested) list whose      *)
(* elements are the flipped sub-interfaces.                                                     *)
RECURSIVE Nodes(_, _)
Nodes(sig, path) ==
    UNION {LET m == Mem(sig)[i] IN
           UNION {LET p == path \o <<m.name>> \o ix IN
                  {[path |-> p, plain |-> (MemberSig(m) = m.sub), flip |-> (MemberSig(m) = Flip(m.sub))]}
                  \cup Nodes(MemberSig(m), p)
                  : ix \in Range(IdxSeq(m.dims))}
           : i \in {j \in DOMAIN sig.ms : sig.ms[j].kind = "sig"}}

(* the same walk, carrying the signature of every sub-interface: set of <<path, signature>>      *)
RECURSIVE NodeSigs(_, _)
NodeSigs(sig, path) ==
    UNION {LET m == Mem(sig)[i] IN
           UNION {LET p == path \o <<m.name>> \o ix IN
                  {<<p, MemberSig(m)>>} \cup NodeSigs(MemberSig(m), p)
                  : ix \in Range(IdxSeq(m.dims))}
           : i \in {j \in DOMAIN sig.ms : sig.ms[j].kind = "sig"}}

(* every signature value occurring in the tree: the node itself and all declared descriptions    *)
RECURSIVE AllSigs(_)
AllSigs(sig) == {sig} \cup UNION {AllSigs(sig.ms[i].sub) : i \in {j \in DOMAIN sig.ms : sig.ms[j].kind = "sig"}}
HasIdent(sig) == \E n \in AllSigs(sig) : n.nm = "ident"

----------------------------------------------------------------------------
(* TLC note: LET definitions and operator arguments are re-evaluated at every use in this      *)
(* context, so shared intermediate values are bound by a quantifier over a singleton:           *)
(*    Only({Body(v) : v \in {e}})   means   LET v == e IN Body(v)   with e evaluated once.      *)
Only(S) == CHOOSE v \in S : TRUE

----------------------------------------------------------------------------
(* Compliance (Signature.is_compliant).  An interface description is                             *)
(*   [sig: the value of its `signature` attribute, leaves: set of [path, impl, w, s, init],       *)
(*    nodes: set of <<path, the `signature` attribute of the sub-interface found there>>]         *)
(* impl = "signal" (init = its initial value) or "const" (init = its value).                    *)
(* lv = Leaves(sig), ns = NodeSigs(sig): "obj has a signature attribute ... such that             *)
(* self == obj.signature; ... for signature members, matches the description in the signature as  *)
(* verified by Signature.is_compliant" (of the member's signature, recursively).                 *)
Created(sig, lv, ns) == [sig |-> sig, nodes |-> ns,
                         leaves |-> {[path |-> l.path, impl |-> "signal", w |-> l.w, s |-> l.s, init |-> l.init]
                                     : l \in lv}]
Compliant(sig, lv, ns, d) ==
    /\ sig = d.sig
    /\ ns = d.nodes
    /\ {l.path : l \in d.leaves} = {l.path : l \in lv}
    /\ \A l \in lv : \A o \in d.leaves :
          o.path = l.path => /\ o.w = l.w /\ o.s = l.s
                             /\ (o.impl = "signal" => o.init = l.init)

----------------------------------------------------------------------------
(* connect(m, *args).  An argument is [leaves: Leaves(its signature), consts: set of <<path,    *)
(* value>> for the port members implemented by a Const].  Requirements, from the documentation  *)
(* of connect():                                                                                *)
(*  - same set of port members with the same dimensions            -> "missing_member"           *)
(*  - per path the same width ("Signedness may differ")             -> "width_mismatch"           *)
(*  - per path the same initial value                               -> "init_mismatch"            *)
(*  - per path at most one output                                   -> "multiple_outputs"         *)
(*  - a constant input needs a constant output of the same value    -> "const_varying/_mismatch"  *)
(*  - only inputs anywhere: nothing can be connected                -> "inputs_only"              *)
(* Otherwise in.eq(out) for every input with the same path as the (single) output; "if no        *)
(* interface object has an output for a given path, no connection at all is made"; a constant    *)
(* input is never driven.  When no connection at all results (no port at all, or every input a   *)
(* matching constant) the documentation is contradictory ("at least one connection must be       *)
(* made" vs. the constant-input example) and the outcome is left unspecified.                   *)
(* Outcome: [errs: set of error kinds (non-empty <=> ConnectionError), edges: set of             *)
(*           <<driver argument, driven argument, path>>, unspec].                               *)
ArgOf(leafseq) == [leaves |-> Range(leafseq), consts |-> {}]

PathInfo(args, lf, p) ==
    LET N    == DOMAIN lf
        outs == {i \in N : lf[i][p].flow = "Out"}
        ins  == N \ outs
        IsC(i) == \E c \in args[i].consts : c[1] = p
        CV(i)  == (CHOOSE c \in args[i].consts : c[1] = p)[2]
        drv  == IF Mutant = "first_argument_drives" THEN 1 ELSE CHOOSE o \in outs : TRUE
        one  == Cardinality(outs) = 1
    IN [wm    |-> \E i, j \in N : lf[i][p].w # lf[j][p].w,
        im    |-> \E i, j \in N : lf[i][p].init # lf[j][p].init,
        nout  |-> Cardinality(outs),
        cvar  |-> one /\ \E j \in ins : IsC(j) /\ ~IsC(drv),
        cmis  |-> one /\ \E j \in ins : IsC(j) /\ IsC(drv) /\ CV(j) # CV(drv),
        edges |-> IF one THEN {<<drv, j, p>> : j \in {k \in ins : ~IsC(k) /\ k # drv}} ELSE {}]

Connect3(allp, info) ==
    LET errs == {k \in {"width_mismatch", "init_mismatch", "multiple_outputs", "const_varying",
                        "const_mismatch", "inputs_only"} :
                   CASE k = "width_mismatch"   -> \E p \in allp : info[p].wm
                     [] k = "init_mismatch"    -> \E p \in allp : info[p].im
                     [] k = "multiple_outputs" -> \E p \in allp : info[p].nout > 1
                     [] k = "const_varying"    -> \E p \in allp : info[p].cvar
                     [] k = "const_mismatch"   -> \E p \in allp : info[p].cmis
                     [] k = "inputs_only"      -> allp # {} /\ \A p \in allp : info[p].nout = 0}
        edges == UNION {info[p].edges : p \in allp}
    IN [errs |-> errs, edges |-> IF errs = {} THEN edges ELSE {}, unspec |-> errs = {} /\ edges = {}]

Connect2(args, lf, allp) ==
    IF \E i \in DOMAIN lf : DOMAIN lf[i] # allp
    THEN [errs |-> {"missing_member"}, edges |-> {}, unspec |-> FALSE]
    ELSE Only({Connect3(allp, info) : info \in {[p \in allp |-> PathInfo(args, lf, p)]}})

ConnectOutcome(args) ==
    Only({Only({Connect2(args, lf, allp) : allp \in {UNION {DOMAIN lf[i] : i \in DOMAIN lf}}})
          : lf \in {[i \in DOMAIN args |->
                       [p \in {l.path : l \in args[i].leaves} |-> CHOOSE l \in args[i].leaves : l.path = p]]}})

(* the argument tuples derived from a signature s by flipping; as / af: ArgOf the leaves of s / Flip(s). *)
(* "S": an interface created from s;  "F": from s.flip() (the proxy);  "D": from the signature   *)
(* whose members are those of s with the other flow (Flip as data, no proxy involved).           *)
Tuples == << <<"S", "F">>, <<"S", "S">>, <<"F", "F">>, <<"S", "F", "F">>, <<"S", "S", "F">>, <<"S", "D">> >>
Mk(t, as, af) == [i \in DOMAIN t |-> IF t[i] = "S" THEN as ELSE af]

PermuteOutcome(o, pi) == [o EXCEPT !.edges = {<<pi[e[1]], pi[e[2]], e[3]>> : e \in o.edges}]

----------------------------------------------------------------------------
(* Single-point corruptions of the compliant tuples <<S,F>> (and <<S,F,F>>).                     *)
(* A signature corruption replaces the attributes of ONE member (at member path mp: names only)  *)
(* in the expression of ONE argument, or removes that member.                                   *)
RECURSIVE Members(_, _)
Members(x, mp) ==   \* set of <<member path, member>> of the expression
    UNION {{<<mp \o <<x.ms[i].name>>, x.ms[i]>>}
           \cup (IF x.ms[i].kind = "sig" THEN Members(x.ms[i].sub, mp \o <<x.ms[i].name>>) ELSE {})
           : i \in DOMAIN x.ms}

RECURSIVE Upd(_, _, _, _)
Upd(ms, mp, rm, new) ==    \* rm: remove the member;  otherwise new is the replacement member
    LET i == CHOOSE i \in DOMAIN ms : ms[i].name = Head(mp) IN
    IF Len(mp) = 1 THEN
        IF rm THEN SubSeq(ms, 1, i - 1) \o SubSeq(ms, i + 1, Len(ms))
        ELSE [ms EXCEPT ![i] = new]
    ELSE [ms EXCEPT ![i].sub.ms = Upd(@, Tail(mp), rm, new)]

OtherShapes(m) == {a \in {[w |-> 1, s |-> FALSE], [w |-> 2, s |-> FALSE], [w |-> 2, s |-> TRUE]} :
                     a.w # m.w \/ a.s # m.s}
Edits(m) ==    \* <<kind, new member>>
    (IF m.kind = "port" THEN
        {<<"shape", [m EXCEPT !.w = a.w, !.s = a.s]>> : a \in OtherShapes(m)}
        \cup {<<"init", [m EXCEPT !.init = 1 - @]>>}
        \cup {<<"dims", [m EXCEPT !.dims = d]>> : d \in DimsAll \ {m.dims}}
     ELSE {})
    \cup {<<"flow", [m EXCEPT !.flow = FlipFlow(@)]>>}

HasLeaf(m) == m.kind = "port" \/ NumLeaves(Norm(m.sub)) > 0

VarTuples == IF Triples THEN << <<"S", "F">>, <<"S", "F", "F">> >> ELSE << <<"S", "F">> >>
VarArgs(t) == IF Len(t) = 2 THEN {1, 2} ELSE {1, 3}

CorruptArg(x, k, mp, rm, new) ==
    Only({ArgOf(Flatten(IF k = "S" THEN y ELSE Flip(y), <<>>))
          : y \in {Norm([x EXCEPT !.ms = Upd(@, mp, rm, new)])}})

(* dumped as <<tuple, corrupted argument, member path, kind, new flow, dims, w, s, init, outcome>> *)
Variant(t, base, a, mp, kind, m, arg) ==
    <<t, a, mp, kind, m.flow, m.dims, m.w, m.s, m.init,
      Only({ConnectOutcome(args) : args \in {[base EXCEPT ![a] = arg]}})>>

SigVariants(x, as, af) ==
    UNION {UNION {UNION {
        Only({
            {Only({Variant(VarTuples[ti], base, a, pm[1], "remove", pm[2], arg)
                   : arg \in {CorruptArg(x, VarTuples[ti][a], pm[1], TRUE, pm[2])}})}
            \cup
            {Only({Variant(VarTuples[ti], base, a, pm[1], e[1], e[2], arg)
                   : arg \in {CorruptArg(x, VarTuples[ti][a], pm[1], FALSE, e[2])}})
             : e \in Edits(pm[2])}
            : base \in {Mk(VarTuples[ti], as, af)}})
        : a \in VarArgs(VarTuples[ti])}
        : pm \in {q \in Members(x, <<>>) : HasLeaf(q[2])}}
        : ti \in DOMAIN VarTuples}

(* Constant corruptions of <<S,F>>: the input (and possibly the output) of one path is a Const. *)
(* cin / cout: value of the constant, -1 = an ordinary signal.                                  *)
(* dumped as <<path, index of the input argument, cin, cout, outcome>>                          *)
ConstVariants(ls, as, af) ==
    UNION {LET o == IF l.flow = "Out" THEN 1 ELSE 2
               i == 3 - o
               Mkc(cin, cout) == [k \in 1..2 |->
                    [(IF k = 1 THEN as ELSE af) EXCEPT
                       !.consts = IF k = i /\ cin >= 0 THEN {<<l.path, cin>>}
                                  ELSE IF k = o /\ cout >= 0 THEN {<<l.path, cout>>} ELSE {}]]
           IN {<<l.path, i, c[1], c[2], Only({ConnectOutcome(args) : args \in {Mkc(c[1], c[2])}})>>
               : c \in {<<l.init, -1>>, <<l.init, 1 - l.init>>, <<l.init, l.init>>, <<-1, l.init>>}}
           : l \in ls}

(* Tuples with an UNDRIVEN path: one port member (all of its leaves, wherever it sits: nested,    *)
(* under In(...) wrappers, with dimensions) is made an input on EVERY argument, the other members *)
(* keep their single output.  "For each path, the port members of every interface object must     *)
(* have the same width and initial value ... Signedness may differ" holds for such a path as for   *)
(* any other; when it does, the path is a legal no-op ("If no interface object has an output for   *)
(* a given path, no connection at all is made") and the remaining paths are connected as usual.    *)
(* kind "quiet": the compliant tuple;  "shape" / "init": in addition ONE argument (a) declares    *)
(* another shape / initial value for that member.  The outcome is ConnectOutcome of the tuple, so  *)
(* a tuple in which nothing else is driven is still refused ("inputs_only").                      *)
(* dumped as <<tuple, member path, kind, a (0: none), per argument <<flow, dims, w, s, init>> of   *)
(*            the member, outcome>>                                                               *)
IsIdx(e) == e \in {"0", "1"}
NamesOf(path) == SelectSeq(path, LAMBDA e : ~IsIdx(e))
KindSig(k, x) == IF k = "S" THEN Norm(x) ELSE Flip(Norm(x))
QTuples == IF Triples THEN << <<"S", "F">>, <<"S", "F", "F">>, <<"S", "S", "F">> >>
           ELSE << <<"S", "F">>, <<"S", "F", "F">> >>
QArg(x, k, mp, m) == ArgOf(Flatten(KindSig(k, [x EXCEPT !.ms = Upd(@, mp, FALSE, m)]), <<>>))
QEnc(mem) == [i \in DOMAIN mem |-> <<mem[i].flow, mem[i].dims, mem[i].w, mem[i].s, mem[i].init>>]
QuietVariants(x, as, af) ==
    UNION {UNION {
        LET t  == QTuples[ti]
            mp == pm[1]
            m  == pm[2]
            DrivenBy(i) == \E l \in (IF t[i] = "S" THEN as ELSE af).leaves : NamesOf(l.path) = mp /\ l.flow = "Out"
        IN Only({Only({
             {<<t, mp, "quiet", 0, QEnc(mem), ConnectOutcome(base)>>}
             \cup UNION {
                 {Only({<<t, mp, e[1], a, QEnc(mem2), ConnectOutcome([base EXCEPT ![a] = QArg(x, t[a], mp, e[2])])>>
                        : mem2 \in {[mem EXCEPT ![a] = e[2]]}})
                  : e \in {<<"shape", [mem[a] EXCEPT !.w = sh.w, !.s = sh.s]>> : sh \in OtherShapes(mem[a])}
                           \cup {<<"init", [mem[a] EXCEPT !.init = 1 - @]>>}}
                 : a \in {1, Len(t)}}
             : base \in {[i \in DOMAIN t |-> QArg(x, t[i], mp, mem[i])]}})
             : mem \in {[i \in DOMAIN t |-> IF DrivenBy(i) THEN [m EXCEPT !.flow = FlipFlow(@)] ELSE m]}})
        : pm \in {q \in Members(x, <<>>) : q[2].kind = "port"}}
        : ti \in DOMAIN QTuples}

(* Corrupted interface objects for is_compliant: one leaf replaced / one leaf missing.           *)
(* dumped as <<path, impl, w, s, init, is it compliant>>                                         *)
ObjVariants(s, ls, ns) ==
    LET Repl(good, l, o) == [good EXCEPT !.leaves = (@ \ {q \in @ : q.path = l.path}) \cup o] IN
    UNION {UNION {
           {<<l.path, n.impl, n.w, n.s, n.init, Compliant(s, ls, ns, Repl(good, l, {n}))>>
            : n \in {[path |-> l.path, impl |-> "signal", w |-> 3 - l.w, s |-> FALSE, init |-> 0],
                     [path |-> l.path, impl |-> "signal", w |-> 2, s |-> ~l.s, init |-> l.init],
                     [path |-> l.path, impl |-> "signal", w |-> l.w, s |-> l.s, init |-> 1 - l.init],
                     [path |-> l.path, impl |-> "const", w |-> l.w, s |-> l.s, init |-> 1 - l.init],
                     [path |-> l.path, impl |-> "const", w |-> 3 - l.w, s |-> FALSE, init |-> 0]}}
           \cup {<<l.path, "missing", 0, FALSE, 0, Compliant(s, ls, ns, Repl(good, l, {}))>>}
           : l \in ls}
           : good \in {Created(s, ls, ns)}}

(* Wrongly oriented sub-interface: in an interface created from s, the sub-interface at ONE path  *)
(* is replaced by flipped(that sub-interface) -- the same ports, but its signature (and that of   *)
(* every sub-interface below it) is now the flip of what s declares there.  Such an object does   *)
(* not comply (unless the flip equals the original), and connect() must refuse it                 *)
(* ("connect on compliant interfaces"; ConnectionError: "impossible, meaningless, or forbidden    *)
(* connection").  dumped as <<path, is it compliant, outcome of connect(that object, F)>>         *)
IsPrefixSeq(p, r) == Len(p) <= Len(r) /\ SubSeq(r, 1, Len(p)) = p
SwapVariants(s, ls, ns, as, af) ==
    {Only({<<q[1], ok, IF ok THEN ConnectOutcome(<<as, af>>)
                       ELSE [errs |-> {"noncompliant_argument"}, edges |-> {}, unspec |-> FALSE]>>
           : ok \in {Compliant(s, ls, ns, [Created(s, ls, ns) EXCEPT !.nodes =
                        {<<r[1], IF IsPrefixSeq(q[1], r[1]) THEN Flip(r[2]) ELSE r[2]>> : r \in ns}])}})
     : q \in ns}

----------------------------------------------------------------------------
(* what the real library must show for the tree ms (compact encodings for the state dump) *)
EncLeaves(fs) == [i \in DOMAIN fs |-> <<fs[i].path, fs[i].flow, fs[i].w, fs[i].s, fs[i].init>>]
Expect4(x, s, f, fs, ff, ls, lf, as, af, ns, nf) ==
    [done    |-> TRUE,
     rootnm  |-> x.nm,
     nleaves |-> NumLeaves(s),
     memS    |-> [i \in DOMAIN s.ms |-> <<Mem(s)[i].name, Mem(s)[i].flow>>],   \* sig.members: name, flow
     memF    |-> [i \in DOMAIN f.ms |-> <<Mem(f)[i].name, Mem(f)[i].flow>>],   \* sig.flip().members
     eqCopy  |-> ~HasIdent(s),                            \* a second, separate construction of the same tree == sig
     eqData  |-> ([nm |-> "anon", id |-> 0, fl |-> FALSE, ms |-> Mem(f)] = f),   \* Signature(flipped members) == sig.flip()
     flatS   |-> EncLeaves(fs),                           \* <<path, flow, w, s, init>>, ...
     flatF   |-> EncLeaves(ff),
     \* component metadata: for every leaf <<path, dir, width, signed, init>>, init = what the Signal powers up with
     leafmetaS |-> [i \in DOMAIN fs |-> <<fs[i].path, IF fs[i].flow = "In" THEN "in" ELSE "out", fs[i].w, fs[i].s, fs[i].init>>],
     leafmetaF |-> [i \in DOMAIN ff |-> <<ff[i].path, IF ff[i].flow = "In" THEN "in" ELSE "out", ff[i].w, ff[i].s, ff[i].init>>],
     eqFlip  |-> (s = f),                                 \* sig == sig.flip()
     eqFF    |-> (Flip(f) = s),                           \* sig.flip().flip() == sig
     compSS  |-> Compliant(s, ls, ns, Created(s, ls, ns)),        \* sig.is_compliant(sig.create())
     compFF  |-> Compliant(f, lf, nf, Created(f, lf, nf)),
     compSF  |-> Compliant(s, ls, ns, Created(f, lf, nf)),        \* sig.is_compliant(sig.flip().create())
     compFS  |-> Compliant(f, lf, nf, Created(s, ls, ns)),        \* sig.flip().is_compliant(sig.create())
     nodesS  |-> {<<n.path, n.plain, n.flip>> : n \in Nodes(s, <<>>)},
     nodesF  |-> {<<n.path, n.plain, n.flip>> : n \in Nodes(f, <<>>)},
     conn    |-> [t \in DOMAIN Tuples |-> Only({ConnectOutcome(args) : args \in {Mk(Tuples[t], as, af)}})],
     vars    |-> IF Variants THEN SigVariants(x, as, af) ELSE {},
     cvars   |-> IF Variants THEN ConstVariants(ls, as, af) ELSE {},
     ovars   |-> IF Variants THEN ObjVariants(s, ls, ns) ELSE {},
     swaps   |-> IF Swaps THEN SwapVariants(s, ls, ns, as, af) ELSE {},
     qvars   |-> IF Quiet THEN QuietVariants(x, as, af) ELSE {}]
Expect3(x, s, f, fs, ff) ==
    Only({Expect4(x, s, f, fs, ff, ls, lf, as, af, ns, nf)
          : ls \in {Range(fs)}, lf \in {Range(ff)}, as \in {ArgOf(fs)}, af \in {ArgOf(ff)},
            ns \in {NodeSigs(s, <<>>)}, nf \in {NodeSigs(f, <<>>)}})
Expect2(x, s, f) == Only({Expect3(x, s, f, fs, ff) : fs \in {Flatten(s, <<>>)}, ff \in {Flatten(f, <<>>)}})
Expect1(x, s) == Only({Expect2(x, s, f) : f \in {Flip(s)}})
RootId == 100
RootX(ms, nm) == [fl |-> FALSE, ms |-> ms, nm |-> nm, id |-> IF nm = "anon" THEN 0 ELSE RootId]
Expect(ms, nm) == Only({Only({Expect1(x, s) : s \in {Norm(x)}}) : x \in {RootX(ms, nm)}})
Open == [done |-> FALSE]

----------------------------------------------------------------------------
----------------------------------------------------------------------------
(* the builder *)
Names(d) == IF d = 1 THEN <<"p", "c", "t">> ELSE IF d = 2 THEN <<"a", "z", "m">> ELSE <<"k", "e", "r">>
NoSub == [fl |-> FALSE, ms |-> <<>>, nm |-> "anon", id |-> 0]
RECURSIVE CountSigs(_)
CountSigs(ms) == IF ms = <<>> THEN 0
                 ELSE (IF Head(ms).kind = "sig" THEN 1 + CountSigs(Head(ms).sub.ms) ELSE 0) + CountSigs(Tail(ms))
RECURSIVE CountMs(_)
CountMs(ms) == IF ms = <<>> THEN 0 ELSE 1 + CountMs(Head(ms).sub.ms) + CountMs(Tail(ms))
Total == (Len(stack) - 1) + SumSeq([i \in DOMAIN stack |-> CountMs(stack[i].ms)])
Top == stack[Len(stack)]
Room == Len(Top.ms) < MaxPerLevel /\ Total < MaxMembers
NextName == Names(Len(stack))[Len(Top.ms) + 1]
ExpOf(st) == IF Len(st) = 1 THEN Expect(st[1].ms, st[1].nm) ELSE Open

Init == \E nm \in RootNm :
        /\ stack = << [flow |-> "Out", dims |-> <<>>, fl |-> FALSE, nm |-> nm, ms |-> <<>>] >>
        /\ exp = Expect(<<>>, nm)

Push(st, m) == [st EXCEPT ![Len(st)].ms = Append(@, m)]

AddPort(flow, dims, a) ==
    /\ Room
    /\ LET m == [name |-> NextName, flow |-> flow, dims |-> dims, kind |-> "port",
                 w |-> a.w, s |-> a.s, init |-> a.init, agg |-> "", ini |-> "", sub |-> NoSub] IN
       stack' = Push(stack, m)
    /\ exp' = ExpOf(stack')

AddAggPort(flow, dims, a) ==      \* a port shaped by the aggregate a[1], its initial value given as a[2]
    /\ Room
    /\ LET m == [name |-> NextName, flow |-> flow, dims |-> dims, kind |-> "port",
                 w |-> TWidth(AggT(a[1])), s |-> FALSE, init |-> AggInit(a), agg |-> a[1], ini |-> a[2], sub |-> NoSub] IN
       stack' = Push(stack, m)
    /\ exp' = ExpOf(stack')

OpenSub(flow, dims, fl, nm) ==
    /\ Room /\ Len(stack) < MaxDepth
    /\ stack' = Append(stack, [flow |-> flow, dims |-> dims, fl |-> fl, nm |-> nm, ms |-> <<>>])
    /\ exp' = Open

CloseSub ==
    /\ Len(stack) > 1
    /\ LET fr == Top
           st == SubSeq(stack, 1, Len(stack) - 1)
           m == [name |-> Names(Len(st))[Len(st[Len(st)].ms) + 1], flow |-> fr.flow, dims |-> fr.dims,
                 kind |-> "sig", w |-> 0, s |-> FALSE, init |-> 0, agg |-> "", ini |-> "",
                 sub |-> [fl |-> fr.fl, ms |-> fr.ms, nm |-> fr.nm,
                          \* a new object: ids are the number of signatures closed so far (struct: class parameter 7)
                          id |-> IF fr.nm = "ident" THEN 1 + SumSeq([i \in DOMAIN stack |-> CountSigs(stack[i].ms)])
                                 ELSE IF fr.nm = "struct" THEN 7 ELSE 0]] IN
       stack' = Push(st, m)
    /\ exp' = ExpOf(stack')

(* another member whose description is THE SAME named signature object as the previous member's, *)
(* plain or flipped, with its own flow and dimensions                                            *)
ReuseSub(flow, dims, fl) ==
    /\ Room /\ Top.ms # <<>>
    /\ LET last == Top.ms[Len(Top.ms)] IN
       /\ last.kind = "sig" /\ last.sub.nm # "anon"
       /\ Total + CountMs(last.sub.ms) < MaxMembers
       /\ stack' = Push(stack, [last EXCEPT !.name = NextName, !.flow = flow, !.dims = dims, !.sub.fl = fl])
    /\ exp' = ExpOf(stack')

Next == \/ \E flow \in {"In", "Out"}, dims \in PortDims, a \in PortAttrs : AddPort(flow, dims, a)
        \/ \E flow \in {"In", "Out"}, dims \in PortDims, a \in AggAttrs : AddAggPort(flow, dims, a)
        \/ \E flow \in {"In", "Out"}, dims \in SubDims, fl \in SubFlips, nm \in SubNm : OpenSub(flow, dims, fl, nm)
        \/ CloseSub
        \/ \E flow \in {"In", "Out"}, dims \in SubDims, fl \in BOOLEAN : ReuseSub(flow, dims, fl)
Spec == Init /\ [][Next]_vars

(* Theorems, checked on every closed state.  exp.conn[ti] = ConnectOutcome(Mk(Tuples[ti], ..)) *)
(* is the value carried by the state (computed by Expect).                                     *)
Closed == Len(stack) = 1
X == RootX(stack[1].ms, stack[1].nm)
(* Th(P): P(x, s, f, fs, ff) holds for the tree of a closed state, with                          *)
(* s = Norm(x), f = Flip(s), fs = Flatten(s), ff = Flatten(f)                                    *)
Th(P(_, _, _, _, _)) ==
    Closed => \A s \in {Norm(X)} : \A f \in {Flip(s)} :
              \A fs \in {Flatten(s, <<>>)} : \A ff \in {Flatten(f, <<>>)} : P(X, s, f, fs, ff)

FlipFlip == Th(LAMBDA x, s, f, fs, ff : Flip(f) = s)
FlipReverses ==     \* flipping once reverses the effective direction of every leaf, and nothing else
    Th(LAMBDA x, s, f, fs, ff :
        /\ Len(fs) = Len(ff)
        /\ \A i \in DOMAIN fs : ff[i] = [fs[i] EXCEPT !.flow = FlipFlow(@)])
DirTheorem ==       \* flatten reports the direction given by counting In(...) wrappers and flips
    Th(LAMBDA x, s, f, fs, ff : \A i \in DOMAIN fs : fs[i].flow = EffDir(x, fs[i].path))
EachLeafOnce ==
    Th(LAMBDA x, s, f, fs, ff :
        /\ Len(fs) = NumLeaves(s)
        /\ Cardinality({fs[i].path : i \in DOMAIN fs}) = Len(fs))
CreatedComplies ==
    Th(LAMBDA x, s, f, fs, ff :
        /\ \A ns \in {NodeSigs(s, <<>>)} : Compliant(s, Range(fs), ns, Created(s, Range(fs), ns))
        /\ \A nf \in {NodeSigs(f, <<>>)} : Compliant(f, Range(ff), nf, Created(f, Range(ff), nf)))
NeverOwnFlip ==     \* a signature with members, or a named one, is never equal to its own flip; flip is an involution
    Th(LAMBDA x, s, f, fs, ff :
        \A n \in AllSigs(s) \cup AllSigs(f) :
            /\ Flip(Flip(n)) = n
            /\ (n.ms # <<>> \/ n.nm # "anon") => Flip(n) # n
            /\ (n.ms = <<>> /\ n.nm = "anon") => Flip(n) = n)
WrongWayRejected == \* the interface created from the flip does not comply (and vice versa) unless flip = original
    Th(LAMBDA x, s, f, fs, ff :
        \A ns \in {NodeSigs(s, <<>>)} : \A nf \in {NodeSigs(f, <<>>)} :
            /\ Compliant(s, Range(fs), ns, Created(f, Range(ff), nf)) <=> (s = f)
            /\ Compliant(f, Range(ff), nf, Created(s, Range(fs), ns)) <=> (s = f))
PermInvariant ==    \* connect does not depend on the order of its arguments
    Th(LAMBDA x, s, f, fs, ff :
        \A as \in {ArgOf(fs)} : \A af \in {ArgOf(ff)} :
        \A ti \in DOMAIN Tuples :
            \A t \in {Mk(Tuples[ti], as, af)} :
            \A pi \in Permutations(DOMAIN t) :
                \A tp \in {[i \in DOMAIN t |-> t[pi[i]]]} :
                    PermuteOutcome(ConnectOutcome(tp), pi) = exp.conn[ti])
ConnectSound ==     \* an ok outcome: every driven leaf is an input with exactly one driver, an output
    Th(LAMBDA x, s, f, fs, ff :
        \A as \in {ArgOf(fs)} : \A af \in {ArgOf(ff)} :
        \A ti \in DOMAIN Tuples :
            \A t \in {Mk(Tuples[ti], as, af)} : \A o \in {exp.conn[ti]} :
            \A e \in o.edges :
                /\ \E l \in t[e[1]].leaves : l.path = e[3] /\ l.flow = "Out"
                /\ \E l \in t[e[2]].leaves : l.path = e[3] /\ l.flow = "In"
                /\ \A g \in o.edges : (g[2] = e[2] /\ g[3] = e[3]) => g = e)
PairConnects ==     \* <<S, Flip(S)>> always connects, every leaf once
    Th(LAMBDA x, s, f, fs, ff :
        \A o \in {exp.conn[1]} :
            /\ o.errs = {}
            /\ Cardinality(o.edges) = NumLeaves(s))
=============================================================================
