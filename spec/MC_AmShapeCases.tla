------------------------- MODULE MC_AmShapeCases -------------------------
EXTENDS AmShapeCases
StepsQ == {-5, -3, -2, -1, 1, 2, 3, 5}
BitArgsQ == (-70..70) \cup UNION {{Pow2(k) - 1, Pow2(k), Pow2(k) + 1, -Pow2(k) - 1, -Pow2(k), -Pow2(k) + 1} : k \in 7..20}
(* mutant: a "minimal" shape that is one bit too wide must break RangeExact *)
BadMinShape(S) ==
    IF S = {} \/ S = {0} THEN Unsigned(0)
    ELSE LET sg == \E v \in S : v < 0 IN
         [w |-> 1 + Least(LAMBDA n : \A v \in S : Fits(v, [w |-> n, s |-> sg]), 31), s |-> sg]
===========================================================================
