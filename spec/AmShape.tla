------------------------------- MODULE AmShape ------------------------------
(* Shapes: casting of integers, ranges and enumerations to shapes, constant normalisation and   *)
(* the result-shape calculus of every operator, as stated by the language guide and the         *)
(* reference documentation (docs/guide.rst "Shapes", "Operators"; reference docstrings).        *)
(* Declarative: minimal shapes are defined as "least width such that everything fits".          *)
EXTENDS AmBits

(* least n in 0..bound with P(n) *)
Least(P(_), bound) == CHOOSE n \in 0..bound : P(n) /\ \A m \in 0..(n - 1) : ~P(m)

(* bits_for(v, require_sign): least width representing v, signed iff v < 0 or require_sign;     *)
(* by convention the result is never 0 except that bits_for(0) is 1 (a constant 0 is one bit).  *)
BitsFor(v, sign) ==
    LET sg == sign \/ v < 0 IN
    Least(LAMBDA n : n >= 1 /\ Fits(v, [w |-> n, s |-> sg]), 31)

(* ceil_log2(n) for n >= 0: least k with 2^k >= n *)
CeilLog2(n) == Least(LAMBDA k : Pow2(k) >= n, 30)

(* shape of an integer constant without an explicit shape *)
ShapeOfInt(v) == [w |-> BitsFor(v, FALSE), s |-> v < 0]

(* unification of a non-empty family of shapes (documented rule for mixed signedness:           *)
(* unsigned operands are widened by one bit when any operand is signed)                         *)
UnifySet(S) ==
    LET anyS == \E x \in S : x.s
        W(x) == IF anyS /\ ~x.s THEN x.w + 1 ELSE x.w
        mx   == CHOOSE n \in {W(x) : x \in S} : \A y \in S : W(y) <= n
    IN [w |-> mx, s |-> anyS]
Unify(a, b) == UnifySet({a, b})

(* the narrowest shape able to represent every element of a finite non-empty set of integers,   *)
(* signed exactly when some element is negative; the set {0} and the empty set give width 0     *)
MinShape(S) ==
    IF S = {} \/ S = {0} THEN Unsigned(0)
    ELSE LET sg == \E v \in S : v < 0 IN
         [w |-> Least(LAMBDA n : \A v \in S : Fits(v, [w |-> n, s |-> sg]), 31), s |-> sg]

RangeElems(start, stop, step) ==
    IF step > 0 THEN {v \in start..(stop - 1) : (v - start) % step = 0}
    ELSE {v \in (stop + 1)..start : (start - v) % (-step) = 0}
ShapeOfRange(start, stop, step) == MinShape(RangeElems(start, stop, step))

(* enumerations: every member counts with the shape it has as a constant *)
ShapeOfEnum(members) ==
    IF members = {} THEN Unsigned(0) ELSE UnifySet({ShapeOfInt(v) : v \in members})

ConstNorm(v, sh) == Norm(v, sh)

(* ---------------- result shapes of the operators ---------------- *)
OpShape1(op, a) ==
    CASE op = "Neg" -> Signed(a.w + 1)
      [] op \in {"Pos", "Inv"} -> a
      [] op = "Abs" -> Unsigned(a.w)
      [] op \in {"Bool", "Any", "All", "XorR"} -> Unsigned(1)
      [] op = "AsSigned" -> Signed(a.w)
      [] op = "AsUnsigned" -> Unsigned(a.w)

OpShape2(op, a, b) ==
    CASE op = "Add" -> LET u == Unify(a, b) IN [w |-> u.w + 1, s |-> u.s]
      [] op = "Sub" -> Signed(Unify(a, b).w + 1)
      [] op = "Mul" -> [w |-> a.w + b.w, s |-> a.s \/ b.s]
      [] op = "FloorDiv" -> [w |-> a.w + (IF b.s THEN 1 ELSE 0), s |-> a.s \/ b.s]
      [] op = "Mod" -> b
      [] op \in {"Eq", "Ne", "Lt", "Le", "Gt", "Ge"} -> Unsigned(1)
      [] op \in {"And", "Or", "Xor"} -> Unify(a, b)
      [] op = "Shl" -> [w |-> a.w + Pow2(b.w) - 1, s |-> a.s]
      [] op = "Shr" -> a

ShiftLeftShape(a, n)  == IF a.s THEN Signed(Max(a.w + n, 1)) ELSE Unsigned(Max(a.w + n, 0))
ShiftRightShape(a, n) == ShiftLeftShape(a, -n)

(* Python slice clamping: indices(len) for step 1 *)
ClampIdx(i, w) == IF i < 0 THEN Max(i + w, 0) ELSE Min(i, w)

(* ---------------- theorems checked by TLC on finite boxes ---------------- *)
MinShapeMinimal(S) ==
    LET m == MinShape(S) IN
    /\ \A v \in S : Fits(v, m)
    /\ m.s = (\E v \in S : v < 0)
    /\ (m.w > 0 /\ S # {} => \E v \in S : ~Fits(v, [w |-> m.w - 1, s |-> m.s]) \/ (m.s /\ m.w = 1))
UnifyContains(a, b) ==
    LET u == Unify(a, b) IN
    /\ \A v \in Range(a) : Fits(v, u)
    /\ \A v \in Range(b) : Fits(v, u)
    /\ u.s = (a.s \/ b.s)
BitsForBracket(v) ==
    LET n == BitsFor(v, FALSE) IN
    IF v >= 0 THEN v < Pow2(n) /\ (n > 1 => v >= Pow2(n - 1))
    ELSE v >= -Pow2(n - 1) /\ (n > 1 => v < -Pow2(n - 2))
CeilLog2Bracket(n) ==
    LET k == CeilLog2(n) IN Pow2(k) >= n /\ (k > 0 => Pow2(k - 1) < n)
=============================================================================
